"""Bounded native suites for C11, C14, C15, C16 (cross references, preview,
purging/deleting, multi-database routing).

Run from an empty scratch cwd with::

    PYTHONPATH=/repo:/repo/tests:/verif DJANGO_SETTINGS_MODULE=settings \\
    PYTHONDONTWRITEBYTECODE=1 /verif/.venv/bin/python -m adapters.suites_refs \\
        C11 quick

Everything here drives REAL django-evolution code (mutations, AppMutator,
Evolver, PurgeAppTask, the ``evolve`` management command, SQLExecutor) against
the REAL scratch SQLite databases that :mod:`adapters.evo_harness` sets up.

Multi-app projects
==================

``evo_harness`` only knows the single dynamic app ``tests``.  The properties
here need several apps, so this module keeps a small "project" layer on top
of the harness:

* an *apps spec* is ``{app_label: {ModelName: {'fields': {...}, 'meta':
  {...}}}}`` with the model spec format of ``evo_harness`` (relation ``to``
  values are ``'Model'`` (same app), ``'label.Model'`` or ``'self'``);
* for each label a synthetic package ``vxapps.<label>`` with a ``models``
  module (and, on request, an ``evolutions`` package with ``SEQUENCE`` and
  one module with ``MUTATIONS`` per evolution label) is put into
  ``sys.modules`` and registered in Django's app registry with
  ``apps.set_installed_apps`` -- exactly what the project's own
  ``register_app`` does for its ``tests`` app;
* mutations are described as plain lists, see :func:`make_mutation`.

Every scenario cleans up after itself: scratch tables are dropped on both
database aliases, ``Version``/``Evolution``/content type rows that were added
are deleted, models and apps are unregistered.

Public API
==========

``suite_C11 / suite_C14 / suite_C15 / suite_C16 (tier='quick'|'thorough',
seed=0)`` return the report dict described in the task (plus the extra keys
``failure_counts`` {clause: number of failing evaluations, " (UNKNOWN)"
appended when no KNOWN entry matches}, ``skipped`` {phase/exception class:
count of scenarios the library rejected}, ``elapsed``);
``replay_C11 / ... (inputs)`` re-run one scenario from a failure's ``inputs``.
``KNOWN`` lists the genuine defects of the current tree that the suites hit;
each entry has ``property``, ``clause``, ``match`` (prose), ``predicate``
(the executable form of ``match``: ``predicate(inputs, observed) -> bool``),
``what`` and a concrete witness ``inputs``.

Clauses
=======

C11  ref-exists / ref-target (a relation of the final signature names no /
     the wrong model although its target was never deleted), rename-accepted
     (a single rename of an existing model/field/label crashes instead of
     being performed or rejected), db-fk-dangling, db-fk-target,
     db-table-missing, db-fk-validates (database side; references to tables
     of explicitly deleted models are exempt).
C15  purge-runs / no-purge-runs / delete-runs, drops-owned-tables,
     drops-nothing-else, other-tables-unchanged (schema text, indexes, rows),
     sig-entries-removed, other-sig-unchanged, no-purge-keeps-tables,
     no-purge-keeps-sig.
C14  preview-statements-in-order, preview-parameters-substituted,
     hash-seed-deterministic.
C16  install-routed, install-sig-routed, evolve-succeeds,
     other-db-untouched, schema-matches-routing, sig-matches-routing.
"""

from __future__ import print_function, unicode_literals

import contextlib
import copy
import io
import itertools
import json
import os
import random
import subprocess
import sys
import time
import types
import warnings
from collections import OrderedDict
from importlib.machinery import ModuleSpec

from adapters import evo_harness as H

PKG = 'vxapps'
ALIASES = ('default', 'db_multi')

_pstate = {
    'ready': False,
    'installed': False,
    'labels': set(),
    'baseline_versions': {},     # alias -> set of Version pks
    'baseline_evolutions': {},   # alias -> set of Evolution pks
}


# ---------------------------------------------------------------------------
# Project layer
# ---------------------------------------------------------------------------

def psetup():
    """Idempotent setup of the harness plus bookkeeping for this module."""
    H.setup()

    if _pstate['ready']:
        return

    from django.db import connections
    from django_evolution.models import Evolution, Version

    if PKG not in sys.modules:
        pkg = types.ModuleType(PKG)
        pkg.__path__ = []
        pkg.__file__ = '/nonexistent/%s/__init__.py' % PKG
        pkg.__spec__ = ModuleSpec(PKG, None, is_package=True)
        sys.modules[PKG] = pkg

    for alias in ALIASES:
        tables = set(H._table_names(connections[alias]))

        if 'django_project_version' in tables:
            _pstate['baseline_versions'][alias] = set(
                Version.objects.using(alias).values_list('pk', flat=True))
            _pstate['baseline_evolutions'][alias] = set(
                Evolution.objects.using(alias).values_list('pk', flat=True))

    _pstate['ready'] = True


def _module_names(label):
    base = '%s.%s' % (PKG, label)
    return base, base + '.models', base + '.evolutions'


def app_module(label):
    """Return (creating it if needed) the synthetic models module of an app.
    """
    base, models_name, _evo = _module_names(label)

    if base not in sys.modules:
        pkg = types.ModuleType(base)
        pkg.__path__ = []
        pkg.__file__ = '/nonexistent/%s/%s/__init__.py' % (PKG, label)
        pkg.__spec__ = ModuleSpec(base, None, is_package=True)
        sys.modules[base] = pkg
        setattr(sys.modules[PKG], label, pkg)

    if models_name not in sys.modules:
        mod = types.ModuleType(models_name)
        mod.__file__ = '/nonexistent/%s/%s/models.py' % (PKG, label)
        mod.__spec__ = ModuleSpec(models_name, None)
        sys.modules[models_name] = mod
        sys.modules[base].models = mod

    return sys.modules[models_name]


def set_evolutions(label, evolutions, extra_attrs=None):
    """Install (or remove, with ``None``) the evolutions package of an app.

    Args:
        evolutions: list of ``(evolution_label, [mutation objects])``.
        extra_attrs: dict of extra module attributes per evolution label
            (e.g. ``{'two': {'AFTER_EVOLUTIONS': [...]}}``).
    """
    base, _models, evo_name = _module_names(label)
    app_module(label)

    for name in list(sys.modules):
        if name == evo_name or name.startswith(evo_name + '.'):
            del sys.modules[name]

    if hasattr(sys.modules[base], 'evolutions'):
        delattr(sys.modules[base], 'evolutions')

    if evolutions is None:
        return

    evo = types.ModuleType(evo_name)
    evo.__path__ = []
    evo.__file__ = '/nonexistent/%s/%s/evolutions/__init__.py' % (PKG, label)
    evo.__spec__ = ModuleSpec(evo_name, None, is_package=True)
    evo.SEQUENCE = [evo_label for evo_label, _m in evolutions]
    sys.modules[evo_name] = evo
    sys.modules[base].evolutions = evo

    for evo_label, mutations in evolutions:
        name = '%s.%s' % (evo_name, evo_label)
        mod = types.ModuleType(name)
        mod.__file__ = '/nonexistent/%s/%s/evolutions/%s.py' % (
            PKG, label, evo_label)
        mod.__spec__ = ModuleSpec(name, None)
        mod.MUTATIONS = list(mutations)

        for key, value in ((extra_attrs or {}).get(evo_label) or {}).items():
            setattr(mod, key, value)

        sys.modules[name] = mod
        setattr(evo, evo_label, mod)


def _purge_models(labels=None):
    """Unregister every model of the synthetic apps (and of 'tests')."""
    from django.apps import apps
    from django_evolution.compat.models import all_models
    from django_evolution.utils.models import clear_model_rel_tree

    labels = set(labels or ()) | set(_pstate['labels']) | set([H.APP_LABEL])

    for label in labels:
        all_models[label].clear()

    pending = getattr(apps, '_pending_operations', None)

    if pending:
        for key in list(pending):
            if key and key[0] in labels:
                del pending[key]

    apps.clear_cache()
    clear_model_rel_tree()


def install_apps(labels):
    """Make exactly ``labels`` (plus the settings' apps and 'tests') installed.
    """
    from django.apps import apps
    from django.apps.config import AppConfig

    psetup()
    uninstall_apps()

    configs = list(apps.get_app_configs())

    for label in labels:
        base, _models, _evo = _module_names(label)
        mod = app_module(label)
        config = AppConfig(base, sys.modules[base])
        config.label = label
        config.models_module = mod
        configs.append(config)
        _pstate['labels'].add(label)

    apps.set_installed_apps(configs)

    # populate() -> import_models() found vxapps.<label>.models itself.
    for label in labels:
        assert apps.get_app_config(label).models_module is app_module(label)

    _pstate['installed'] = True


def uninstall_apps():
    from django.apps import apps

    if _pstate['installed']:
        apps.unset_installed_apps()
        _pstate['installed'] = False
        apps.clear_cache()


def build_project(apps_spec):
    """Create model classes for an apps spec (replacing all previous ones).

    Returns:
        OrderedDict: label -> OrderedDict(model name -> class).
    """
    from django.db import models

    psetup()
    _purge_models(apps_spec.keys())

    result = OrderedDict()

    with warnings.catch_warnings():
        warnings.simplefilter('ignore')

        for label, app_spec in apps_spec.items():
            mod = app_module(label)
            _pstate['labels'].add(label)
            built = OrderedDict()

            for model_name, model_spec in (app_spec or {}).items():
                model_spec = model_spec or {}
                meta_attrs = {'app_label': label}

                for key, value in (model_spec.get('meta') or {}).items():
                    if key in ('unique_together', 'index_together'):
                        value = [tuple(item) for item in value]

                    meta_attrs[str(key)] = H._build_meta_value(models, key,
                                                               value)

                attrs = OrderedDict()
                attrs['__module__'] = mod.__name__
                attrs['Meta'] = type(str('Meta'), (object,), meta_attrs)

                for field_name, field_info in (
                        model_spec.get('fields') or {}).items():
                    type_name, kwargs = field_info[0], dict(
                        field_info[1] if len(field_info) > 1 else {})
                    field_cls = getattr(models, type_name)

                    if 'to' in kwargs:
                        to = kwargs['to']

                        if to == model_name:
                            to = 'self'
                        elif to != 'self' and '.' not in to:
                            to = '%s.%s' % (label, to)

                        kwargs['to'] = to

                        if not issubclass(field_cls, models.ManyToManyField):
                            on_delete = kwargs.get('on_delete', 'CASCADE')

                            if isinstance(on_delete, str):
                                on_delete = getattr(models, on_delete)

                            kwargs['on_delete'] = on_delete

                    attrs[str(field_name)] = field_cls(**kwargs)

                built[model_name] = type(str(model_name), (models.Model,),
                                         dict(attrs))

            result[label] = built

    return result


def project_sig_of(model_maps):
    """ProjectSignature with one AppSignature per label (as the project's
    ``create_test_project_sig`` builds them)."""
    from django_evolution.signature import (AppSignature, ModelSignature,
                                            ProjectSignature)

    project_sig = ProjectSignature()

    for label, model_map in model_maps.items():
        app_sig = AppSignature(app_id=label)
        project_sig.add_app_sig(app_sig)

        for model in model_map.values():
            app_sig.add_model_sig(ModelSignature.from_model(model))

    return project_sig


def create_tables(model_maps, database='default'):
    from django_evolution.compat.db import sql_create_models

    all_models_list = [model for model_map in model_maps.values()
                       for model in model_map.values()]

    if all_models_list:
        sql = sql_create_models(all_models_list, db_name=database)
        H._execute(sql, database, check_constraints=False)


def owned_tables(model_maps):
    """label -> {model name: [table, m2m tables...]} from the real models."""
    result = OrderedDict()

    for label, model_map in model_maps.items():
        result[label] = OrderedDict()

        for name, model in model_map.items():
            tables = [model._meta.db_table]

            for field in model._meta.local_many_to_many:
                through = field.remote_field.through

                if through is not None and through._meta.auto_created:
                    tables.append(through._meta.db_table)

            result[label][name] = tables

    return result


def insert_rows(model_maps, rows, database='default'):
    """rows: {'label.Model' or table name: [ {col: value} ]}."""
    flat = {}

    for label, model_map in model_maps.items():
        for name, model in model_map.items():
            flat['%s.%s' % (label, name)] = model

    H._insert_rows(flat, rows, database)


def pcleanup(labels=None):
    """Drop scratch tables everywhere, unregister models/apps, restore the
    version/evolution/content type tables."""
    from django.db import connections

    psetup()
    flags = {'connection_reset': False}

    try:
        # EvolveAppTask.prepare_tasks() leaves this set when preparing the
        # tasks raises; the next Evolver in this process would then trip
        # over an assertion.
        from django_evolution.utils.migrations import \
            clear_global_custom_migrations
        clear_global_custom_migrations()
    except Exception:
        pass

    try:
        _purge_models(labels)
    except Exception:
        pass

    uninstall_apps()

    labels = set(labels or ()) | set(_pstate['labels'])

    for alias in ALIASES:
        connection = connections[alias]

        if H._reset_connection(connection):
            flags['connection_reset'] = True

        H._drop_scratch_tables(connection, alias)

        if alias in _pstate['baseline_versions']:
            from django_evolution.models import Evolution, Version

            Evolution.objects.using(alias).exclude(
                pk__in=_pstate['baseline_evolutions'][alias]).delete()
            Version.objects.using(alias).exclude(
                pk__in=_pstate['baseline_versions'][alias]).delete()

        if labels:
            try:
                with connection.cursor() as cursor:
                    marks = ', '.join(['%s'] * len(labels))
                    params = sorted(labels)
                    cursor.execute(
                        'DELETE FROM auth_permission WHERE content_type_id '
                        'IN (SELECT id FROM django_content_type WHERE '
                        'app_label IN (%s))' % marks, params)
                    cursor.execute(
                        'DELETE FROM django_content_type WHERE app_label '
                        'IN (%s)' % marks, params)
            except Exception:
                pass

    try:
        from django.contrib.contenttypes.models import ContentType
        ContentType.objects.clear_cache()
    except Exception:
        pass

    for label in labels:
        set_evolutions(label, None)

    return flags


# ---------------------------------------------------------------------------
# Mutation descriptions
# ---------------------------------------------------------------------------

def make_mutation(desc):
    """Turn a plain-data mutation description into a real mutation object.

    Formats::

        ['AddField', model, field, 'IntegerField', {attrs.., 'initial': v}]
        ['ChangeField', model, field, {attrs.., 'initial': v}]
        ['DeleteField', model, field]
        ['RenameField', model, old, new, {'db_column': c, 'db_table': t}]
        ['ChangeMeta', model, prop, value]
        ['RenameModel', old, new, {'db_table': t}]
        ['DeleteModel', model]
        ['DeleteApplication']
        ['RenameAppLabel', old, new, {'legacy_app_label': l,
                                      'model_names': [...]}]
    """
    psetup()

    from django.db import models
    from django_evolution import mutations as M

    kind = desc[0]

    if kind == 'AddField':
        attrs = dict(desc[4] if len(desc) > 4 else {})
        initial = attrs.pop('initial', None)

        if isinstance(initial, list) and initial and initial[0] == 'date':
            import datetime
            initial = datetime.date(*initial[1:])

        return M.AddField(desc[1], desc[2], getattr(models, desc[3]),
                          initial=initial, **attrs)

    if kind == 'ChangeField':
        attrs = dict(desc[3] if len(desc) > 3 else {})
        initial = attrs.pop('initial', None)
        return M.ChangeField(desc[1], desc[2], initial=initial, **attrs)

    if kind == 'DeleteField':
        return M.DeleteField(desc[1], desc[2])

    if kind == 'RenameField':
        attrs = dict(desc[4] if len(desc) > 4 else {})
        return M.RenameField(desc[1], desc[2], desc[3],
                             db_column=attrs.get('db_column'),
                             db_table=attrs.get('db_table'))

    if kind == 'ChangeMeta':
        value = desc[3]

        if desc[2] in ('unique_together', 'index_together'):
            value = [tuple(item) for item in value]
        elif desc[2] == 'constraints':
            value = [dict(item, type=getattr(models, item['type']))
                     if isinstance(item.get('type'), str) else dict(item)
                     for item in value]

            for item in value:
                if 'fields' in item:
                    item['fields'] = tuple(item['fields'])
        elif desc[2] == 'indexes':
            value = [dict(item) for item in value]

        return M.ChangeMeta(desc[1], desc[2], value)

    if kind == 'RenameModel':
        attrs = dict(desc[3] if len(desc) > 3 else {})
        return M.RenameModel(desc[1], desc[2], db_table=attrs.get('db_table'))

    if kind == 'DeleteModel':
        return M.DeleteModel(desc[1])

    if kind == 'DeleteApplication':
        return M.DeleteApplication()

    if kind == 'RenameAppLabel':
        attrs = dict(desc[3] if len(desc) > 3 else {})
        return M.RenameAppLabel(desc[1], desc[2],
                                legacy_app_label=attrs.get(
                                    'legacy_app_label'),
                                model_names=attrs.get('model_names'))

    raise ValueError('Unknown mutation description %r' % (desc,))


def _error_info(e, phase, **extra):
    info = {'class': type(e).__name__, 'message': str(e)[:300],
            'phase': phase}
    info.update(extra)
    return info


REJECTIONS = ('SimulationFailure', 'EvolutionNotImplementedError',
              'CannotSimulate')


def sig_snapshot(project_sig):
    """{app_id: {Model: {'table':, 'pk_column':, 'fields': {name: {'type':,
    'related_model':, 'attrs': {...}}}}}} as plain data."""
    result = OrderedDict()

    for app_sig in project_sig.app_sigs:
        models_data = OrderedDict()

        for model_sig in app_sig.model_sigs:
            fields = OrderedDict()

            for field_sig in model_sig.field_sigs:
                fields[field_sig.field_name] = {
                    'type': field_sig.field_type.__name__,
                    'related_model': field_sig.related_model,
                    'attrs': H._plain(dict(field_sig.field_attrs)),
                }

            models_data[model_sig.model_name] = {
                'table': model_sig.table_name,
                'pk_column': model_sig.pk_column,
                'fields': fields,
            }

        result[app_sig.app_id] = models_data

    return result


def db_snapshot(database='default'):
    """Schema + rows of all scratch tables of one database."""
    schema = H.introspect_schema(database)
    rows = H.dump_rows(database)
    result = OrderedDict()

    for table, info in schema.items():
        result[table] = {
            'create_sql': info['create_sql'],
            'index_sql': list(info['index_sql']),
            'foreign_keys': [list(item) for item in info['foreign_keys']],
            'columns': [list(item) for item in info['columns']],
            'rows': [list(row) for row in rows.get(table, {}).get('rows',
                                                                   [])],
        }

    return result


# ---------------------------------------------------------------------------
# Reference tracker (the oracle's model of names, for C11)
# ---------------------------------------------------------------------------

_REL_KINDS = {'ForeignKey': 'fk', 'OneToOneField': 'o2o',
              'ManyToManyField': 'm2m'}


class Tracker(object):
    """Tracks model identities through renames/deletions.

    Every model gets a uid; relation fields store the uid of their target, so
    the expected ``related_model`` string of a surviving relation is simply
    the current ``app.Model`` name of the target uid.
    """

    def __init__(self, apps_spec):
        self.apps = OrderedDict()
        self.deleted = set()
        self.deleted_tables = set()
        self.renamed_models = []   # (uid, old 'app.Model', new 'app.Model')
        uid = itertools.count(1)
        by_name = {}

        for label, app_spec in apps_spec.items():
            self.apps[label] = OrderedDict()

            for model_name, model_spec in app_spec.items():
                meta = model_spec.get('meta') or {}
                entry = {
                    'uid': next(uid),
                    'table': meta.get('db_table') or '%s_%s' % (
                        label, model_name.lower()),
                    'fields': OrderedDict(),
                }
                entry['tables'] = [entry['table']]
                self.apps[label][model_name] = entry
                by_name[(label, model_name)] = entry['uid']

        for label, app_spec in apps_spec.items():
            for model_name, model_spec in app_spec.items():
                entry = self.apps[label][model_name]
                has_pk = False

                for field_name, info in (model_spec.get('fields')
                                         or {}).items():
                    type_name = info[0]
                    kwargs = info[1] if len(info) > 1 else {}
                    kind = _REL_KINDS.get(type_name, 'plain')
                    target = None

                    if kind != 'plain':
                        to = kwargs['to']

                        if to in ('self', model_name):
                            target = entry['uid']
                        elif '.' in to:
                            target = by_name[tuple(to.split('.'))]
                        else:
                            target = by_name[(label, to)]

                    if kwargs.get('primary_key'):
                        has_pk = True

                    entry['fields'][field_name] = {
                        'kind': kind,
                        'target': target,
                        'pk': bool(kwargs.get('primary_key')),
                    }

                if not has_pk:
                    fields = OrderedDict()
                    fields['id'] = {'kind': 'plain', 'target': None,
                                    'pk': True}
                    fields.update(entry['fields'])
                    entry['fields'] = fields

    def clone(self):
        return copy.deepcopy(self)

    def locate(self, uid):
        for label, models_map in self.apps.items():
            for model_name, entry in models_map.items():
                if entry['uid'] == uid:
                    return label, model_name

        return None

    def apply(self, label, desc):
        """Apply a mutation description run for app ``label``.

        Returns the label the app has afterwards.
        """
        kind = desc[0]
        models_map = self.apps.get(label)

        if kind == 'RenameModel':
            old, new = desc[1], desc[2]
            attrs = desc[3] if len(desc) > 3 else {}
            entry = models_map[old]
            entry['table'] = attrs.get('db_table')
            entry['tables'].append(entry['table'])
            self.apps[label] = OrderedDict(
                (new if name == old else name, value)
                for name, value in models_map.items())
            self.renamed_models.append((entry['uid'],
                                        '%s.%s' % (label, old),
                                        '%s.%s' % (label, new)))
        elif kind == 'DeleteModel':
            entry = models_map.pop(desc[1])
            self.deleted.add(entry['uid'])
            self.deleted_tables.update(entry['tables'])
        elif kind == 'DeleteApplication':
            for entry in models_map.values():
                self.deleted.add(entry['uid'])
                self.deleted_tables.update(entry['tables'])

            models_map.clear()
        elif kind == 'DeleteField':
            del models_map[desc[1]]['fields'][desc[2]]
        elif kind == 'RenameField':
            entry = models_map[desc[1]]
            entry['fields'] = OrderedDict(
                (desc[3] if name == desc[2] else name, value)
                for name, value in entry['fields'].items())
        elif kind == 'RenameAppLabel':
            old, new = desc[1], desc[2]
            attrs = desc[3] if len(desc) > 3 else {}
            names = attrs.get('model_names')
            source = self.apps[old]
            dest = self.apps.setdefault(new, OrderedDict())

            for name in list(source):
                if names is None or name in names:
                    entry = source.pop(name)
                    dest[name] = entry
                    self.renamed_models.append((entry['uid'],
                                                '%s.%s' % (old, name),
                                                '%s.%s' % (new, name)))

            if not source:
                del self.apps[old]

            if label == old:
                return new

        return label

    def candidates(self, label, rich=True):
        """Mutation descriptions applicable to app ``label`` right now."""
        result = []
        models_map = self.apps.get(label) or {}
        names = set(models_map)

        for model_name, entry in models_map.items():
            new_names = [model_name + 'X']

            if len(model_name) > 2:
                new_names.append(model_name[:-1])

            for i, new_name in enumerate(new_names):
                if new_name in names:
                    continue

                tables = [entry['table'],
                          '%s_%s' % (label, new_name.lower())]

                if not rich:
                    tables = [tables[(i + 1) % 2]]

                for table in tables:
                    result.append(['RenameModel', model_name, new_name,
                                   {'db_table': table}])

            result.append(['DeleteModel', model_name])

            for field_name, field in entry['fields'].items():
                if field['kind'] == 'plain' and not field['pk']:
                    continue

                if field_name == 'id':
                    continue

                result.append(['RenameField', model_name, field_name,
                               field_name + '_r', {}])

                if rich and field['kind'] in ('fk', 'o2o'):
                    result.append(['RenameField', model_name, field_name,
                                   field_name + '_k',
                                   {'db_column': field_name + '_id'}])

                if not field['pk']:
                    result.append(['DeleteField', model_name, field_name])

        if models_map:
            result.append(['DeleteApplication'])
            if label + 'x' not in self.apps:
                result.append(['RenameAppLabel', label, label + 'x', {}])

            if len(label) > 2 and label[:-1] not in self.apps:
                result.append(['RenameAppLabel', label, label[:-1], {}])

            if len(models_map) > 1:
                # (a new label that is already used in the signature is not
                # a valid input: two apps cannot share a label)
                first = list(models_map)[0]
                last = list(models_map)[-1]

                if label + 'y' not in self.apps:
                    result.append(['RenameAppLabel', label, label + 'y',
                                   {'model_names': [first]}])

                if rich and label + 'z' not in self.apps:
                    result.append(['RenameAppLabel', label, label + 'z',
                                   {'model_names': [last]}])

        return result


# ---------------------------------------------------------------------------
# C11
# ---------------------------------------------------------------------------

def _c(max_length=10, **kwargs):
    return ('CharField', dict({'max_length': max_length}, **kwargs))


C11_FAMILIES = OrderedDict([
    ('shop', OrderedDict([
        ('shop', OrderedDict([
            ('Item', {'fields': OrderedDict([('name', _c())])}),
            ('ItemTag', {'fields': OrderedDict([
                ('item', ('ForeignKey', {'to': 'Item'})),
                ('label', _c()),
            ])}),
            ('Order', {'fields': OrderedDict([
                ('items', ('ManyToManyField', {'to': 'Item'})),
                ('main', ('OneToOneField', {'to': 'Item', 'null': True})),
            ])}),
        ])),
        ('crm', OrderedDict([
            ('Customer', {'fields': OrderedDict([
                ('fav', ('ForeignKey', {'to': 'shop.Item', 'null': True})),
                ('tags', ('ManyToManyField', {'to': 'shop.ItemTag'})),
            ])}),
            ('Note', {'fields': OrderedDict([
                ('customer', ('ForeignKey', {'to': 'Customer'})),
                ('about', ('ForeignKey', {'to': 'shop.ItemTag',
                                          'null': True})),
            ])}),
        ])),
    ])),
    ('tree', OrderedDict([
        ('tree', OrderedDict([
            ('Node', {'fields': OrderedDict([
                ('parent', ('ForeignKey', {'to': 'self', 'null': True})),
                ('peers', ('ManyToManyField', {'to': 'self'})),
            ])}),
            ('NodeLink', {'fields': OrderedDict([
                ('src', ('ForeignKey', {'to': 'Node',
                                        'related_name': '+'})),
                ('dst', ('ForeignKey', {'to': 'Node',
                                        'related_name': '+'})),
            ])}),
        ])),
        ('forest', OrderedDict([
            ('Leaf', {'fields': OrderedDict([
                ('node', ('ForeignKey', {'to': 'tree.Node'})),
                ('link', ('OneToOneField', {'to': 'tree.NodeLink',
                                            'null': True})),
            ])}),
        ])),
    ])),
    ('lib', OrderedDict([
        ('lib', OrderedDict([
            ('Code', {'fields': OrderedDict([
                ('code', _c(8, primary_key=True)),
            ])}),
            ('Book', {'fields': OrderedDict([
                ('code', ('ForeignKey', {'to': 'Code'})),
                ('alt', ('OneToOneField', {'to': 'Code', 'null': True,
                                           'related_name': '+'})),
            ])}),
            ('Shelf', {'fields': OrderedDict([
                ('books', ('ManyToManyField', {'to': 'Book'})),
                ('codes', ('ManyToManyField', {'to': 'Code'})),
            ])}),
        ])),
        ('ext', OrderedDict([
            ('Ref', {'fields': OrderedDict([
                ('code', ('ForeignKey', {'to': 'lib.Code'})),
            ])}),
        ])),
    ])),
])


def _default_rows(model_maps):
    """Two consistent rows per model table plus one link per m2m table."""
    from django.db import models

    rows = OrderedDict()
    pks = {}

    def pk_values(model):
        pk = model._meta.pk

        if isinstance(pk, (models.AutoField, models.IntegerField)):
            return [1, 2]

        return ['k1', 'k2']

    for label, model_map in model_maps.items():
        for name, model in model_map.items():
            pks[model] = pk_values(model)

    for label, model_map in model_maps.items():
        for name, model in model_map.items():
            table_rows = []

            for i, pk_value in enumerate(pks[model]):
                row = OrderedDict()

                for field in model._meta.local_fields:
                    if field.primary_key and not field.remote_field:
                        row[field.column] = pk_value
                    elif field.remote_field:
                        target = field.remote_field.model

                        if isinstance(field, models.OneToOneField):
                            row[field.column] = pks[target][i]
                        else:
                            row[field.column] = pks[target][0]
                    elif isinstance(field, models.CharField):
                        row[field.column] = '%s%d' % (field.name[:6], i)
                    else:
                        row[field.column] = i

                table_rows.append(row)

            rows[model._meta.db_table] = table_rows

            for field in model._meta.local_many_to_many:
                through = field.remote_field.through

                if not through._meta.auto_created:
                    continue

                link = OrderedDict()

                for through_field in through._meta.local_fields:
                    if through_field.remote_field:
                        target = through_field.remote_field.model
                        # from_x / to_x of a self relation: link 1 -> 2
                        index = 1 if through_field.name.startswith('to_') \
                            else 0
                        link[through_field.column] = pks[target][index]

                rows[through._meta.db_table] = [link]

    return rows


def _group_steps(steps, mode):
    """[(app_label, legacy_label, [descs])] for a list of (label, desc)."""
    groups = []

    for label, desc in steps:
        if (mode in ('batched', 'legacy') and groups and
            groups[-1][0] == label):
            groups[-1][1].append(desc)
        else:
            groups.append((label, [desc]))

    return groups


def c11_run(family, steps, mode='separate', with_db=True):
    """Run one C11 scenario.

    Args:
        family: key of :data:`C11_FAMILIES`.
        steps: list of ``[app_label, desc]``; ``app_label`` is the label the
            app has in the stored signature when the step starts.
        mode: 'separate' (one AppMutator per mutation), 'batched' (one
            AppMutator per run of mutations of one app) or 'legacy' (as
            'batched', but the AppMutator is created the way the Evolver
            does it for an app whose label changed: ``app_label`` = the
            label after the group's RenameAppLabel mutations,
            ``legacy_app_label`` = the label before).

    Returns:
        dict with 'error', 'failures' (list of (clause, observed)), ...
    """
    from django_evolution.mutators import AppMutator

    psetup()
    apps_spec = C11_FAMILIES[family]
    result = {'error': None, 'failures': [], 'nontrivial': False}
    tracker = Tracker(apps_spec)
    pcleanup(apps_spec.keys())

    if mode == 'simulate':
        with_db = False

    try:
        with warnings.catch_warnings():
            warnings.simplefilter('ignore')
            model_maps = build_project(apps_spec)
            project_sig = project_sig_of(model_maps)
            start = sig_snapshot(project_sig)

            if with_db:
                create_tables(model_maps)
                H._insert_rows({}, _default_rows(model_maps), 'default')

            # Names as the library sees them: the label of an app changes
            # with RenameAppLabel; steps name the label at their start.
            groups = _group_steps([tuple(step) for step in steps], mode)
            executed = True

            for label, descs in groups:
                phase = 'simulate'

                try:
                    app_label = label
                    legacy_label = None

                    if mode == 'legacy':
                        for desc in descs:
                            if (desc[0] == 'RenameAppLabel' and
                                desc[1] == app_label and
                                not (desc[3] if len(desc) > 3 else {}).get(
                                    'model_names')):
                                app_label = desc[2]

                        if app_label != label:
                            legacy_label = label

                    mutations = [make_mutation(desc) for desc in descs]
                    database_state = H.scan_database_state('default')

                    if mode == 'simulate':
                        # Signature only, through the public
                        # BaseMutation.run_simulation() API (what the
                        # project's perform_simulations() tests do).
                        current_label = label

                        for mutation in mutations:
                            mutation.run_simulation(
                                app_label=current_label,
                                project_sig=project_sig,
                                database_state=database_state,
                                database='default')

                            if (hasattr(mutation, 'old_app_label') and
                                mutation.old_app_label == current_label):
                                current_label = mutation.new_app_label

                        continue_db = False
                    else:
                        app_mutator = AppMutator(
                            app_label=app_label,
                            legacy_app_label=legacy_label,
                            project_sig=project_sig,
                            database_state=database_state,
                            database='default')
                        app_mutator.run_mutations(mutations)
                        phase = 'sql'
                        sql = app_mutator.to_sql()
                        continue_db = with_db

                    if continue_db:
                        phase = 'execute'
                        H._execute(sql, 'default', check_constraints=False)
                except H._ExecuteError as e:
                    result['error'] = _error_info(e.original, phase,
                                                  group=[label, descs])
                except Exception as e:
                    result['error'] = _error_info(e, phase,
                                                  group=[label, descs])

                if result['error']:
                    break

                current = label

                for desc in descs:
                    current = tracker.apply(current, desc)

        if (result['error'] is not None and len(steps) == 1 and
            mode in ('separate', 'simulate') and
            steps[0][1][0] in ('RenameModel', 'RenameField',
                               'RenameAppLabel') and
            result['error']['class'] not in REJECTIONS and
            result['error']['phase'] in ('simulate', 'sql')):
            # The property says renames rewrite every reference (both
            # directions of many-to-many relations): a rename of an existing
            # model/field/label to a free name that the library neither
            # performs nor rejects as unsupported, but crashes on, is a
            # violation.
            result['failures'].append(('rename-accepted', dict(
                result['error'])))
            result['error_is_failure'] = True
            result['nontrivial'] = True

        if result['error'] is None:
            final = sig_snapshot(project_sig)
            result['final_sig'] = final
            result['failures'] += _c11_sig_clauses(tracker, final)

            if with_db:
                from django.db import connections

                H._reset_connection(connections['default'])
                result['failures'] += _c11_db_clauses(final, tracker)

            result['nontrivial'] = _c11_nontrivial(start, steps)
    finally:
        pcleanup(apps_spec.keys())

    return result


def _c11_nontrivial(start, steps):
    """A scenario exercises C11 if some relation in the start signature
    points at, or lives on, a model/app touched by one of the mutations."""
    return any(desc[0] in ('RenameModel', 'RenameAppLabel', 'RenameField',
                           'DeleteField', 'DeleteModel', 'DeleteApplication')
               for _label, desc in steps)


def _c11_sig_clauses(tracker, final):
    failures = []
    existing = set('%s.%s' % (app_id, model_name)
                   for app_id, models_map in final.items()
                   for model_name in models_map)

    seen_fields = set()

    for app_id, models_map in final.items():
        for model_name, model in models_map.items():
            tracked_model = (tracker.apps.get(app_id) or {}).get(model_name)

            for field_name, field in model['fields'].items():
                related = field['related_model']

                if not related:
                    continue

                tracked = None

                if tracked_model is not None:
                    tracked = tracked_model['fields'].get(field_name)

                where = '%s.%s.%s' % (app_id, model_name, field_name)

                if tracked is None or tracked['target'] is None:
                    # The oracle lost track of this field (only possible if
                    # the signature holds a model/field under a name no
                    # mutation gave it): fall back to the existence clause.
                    if related not in existing:
                        failures.append(('ref-exists', {
                            'field': where, 'related_model': related}))

                    continue

                if tracked['target'] in tracker.deleted:
                    continue

                expected = '%s.%s' % tracker.locate(tracked['target'])

                if related != expected:
                    clause = ('ref-exists' if related not in existing
                              else 'ref-target')
                    failures.append((clause, {
                        'field': where, 'related_model': related,
                        'expected': expected}))

    return failures


def _c11_db_clauses(final, tracker):
    """Database side: every FK names an existing table/column, relations of
    the final signature point at the table the signature gives for their
    target, and the rows still validate.  References to the table of an
    explicitly deleted model are exempt (the property's "unless")."""
    failures = []
    schema = H.introspect_schema('default')
    pk_columns = {}

    for table, info in schema.items():
        pk_columns[table] = [col[0] for col in info['columns'] if col[3]]

    for table, info in schema.items():
        for ref_table, from_col, to_col in info['foreign_keys']:
            problem = None

            if ref_table in tracker.deleted_tables:
                continue

            if ref_table not in schema:
                problem = 'references missing table'
            elif to_col is not None and to_col not in [
                    col[0] for col in schema[ref_table]['columns']]:
                problem = 'references missing column'

            if problem:
                failures.append(('db-fk-dangling', {
                    'table': table, 'fk': [ref_table, from_col, to_col],
                    'problem': problem}))

    models_by_name = {}

    for app_id, models_map in final.items():
        for model_name, model in models_map.items():
            models_by_name['%s.%s' % (app_id, model_name)] = model

    for app_id, models_map in final.items():
        for model_name, model in models_map.items():
            for field_name, field in model['fields'].items():
                if field['type'] not in ('ForeignKey', 'OneToOneField'):
                    continue

                target = models_by_name.get(field['related_model'])

                if target is None:
                    continue

                where = '%s.%s.%s' % (app_id, model_name, field_name)
                column = field['attrs'].get('db_column') or \
                    '%s_id' % field_name

                if model['table'] not in schema:
                    failures.append(('db-table-missing', {
                        'field': where, 'table': model['table'],
                        'tables': sorted(schema)}))
                    continue

                if target['table'] not in schema:
                    failures.append(('db-table-missing', {
                        'field': where, 'table': target['table'],
                        'tables': sorted(schema)}))
                    continue

                fks = [fk for fk in schema[model['table']]['foreign_keys']
                       if fk[1] == column]
                target_pk = pk_columns[target['table']]
                ok = any(fk[0] == target['table'] and
                         (fk[2] is None or [fk[2]] == target_pk)
                         for fk in fks)

                if not ok:
                    failures.append(('db-fk-target', {
                        'field': where, 'column': column,
                        'expected': [target['table'], target_pk],
                        'foreign_keys': [list(fk) for fk in schema[
                            model['table']]['foreign_keys']]}))

    try:
        violations = [item for item in H.fk_check('default')
                      if item[2] not in tracker.deleted_tables]

        if violations:
            failures.append(('db-fk-validates', {
                'foreign_key_check': [list(item) for item in violations]}))
    except Exception as e:
        failures.append(('db-fk-validates', {
            'foreign_key_check_error': '%s: %s' % (type(e).__name__, e)}))

    return failures


def _c11_sequences(family, depth, rich):
    """All step sequences of exactly ``depth`` mutations for a family
    (each step picks any app of the project as it is at that point)."""
    apps_spec = C11_FAMILIES[family]

    def rec(tracker, prefix, remaining):
        if remaining == 0:
            yield prefix
            return

        for label in list(tracker.apps):
            for desc in tracker.candidates(label, rich=rich):
                nxt = tracker.clone()
                nxt.apply(label, desc)

                for seq in rec(nxt, prefix + [[label, desc]],
                               remaining - 1):
                    yield seq

    return rec(Tracker(apps_spec), [], depth)


def _c11_scenarios(tier, seed):
    rng = random.Random(seed)
    scenarios = []
    exhaustive = True

    for family in C11_FAMILIES:
        singles = list(_c11_sequences(family, 1, True))

        for steps in singles:
            scenarios.append((family, steps, 'separate'))
            scenarios.append((family, steps, 'simulate'))

            if steps[0][1][0] == 'RenameAppLabel':
                scenarios.append((family, steps, 'legacy'))

        pairs = list(_c11_sequences(family, 2, False))

        if tier == 'quick':
            exhaustive = False
            pairs = rng.sample(pairs, min(len(pairs), 60))

        for steps in pairs:
            same_app = steps[0][0] == steps[1][0] or (
                steps[0][1][0] == 'RenameAppLabel' and
                steps[0][1][2] == steps[1][0])
            scenarios.append((family, steps, 'separate'))

            if same_app:
                # Same app: also as ONE evolution through one AppMutator
                # (the step labels then name the app's label at the start
                # of the group).
                first_label = steps[0][0]
                scenarios.append((family,
                                  [[first_label, steps[0][1]],
                                   [first_label, steps[1][1]]], 'batched'))

                if any(step[1][0] == 'RenameAppLabel' for step in steps):
                    scenarios.append((family,
                                      [[first_label, steps[0][1]],
                                       [first_label, steps[1][1]]],
                                      'legacy'))

        if tier != 'quick':
            exhaustive = False
            triples = []
            # Sampled without materialising the (large) full product.
            tracker0 = Tracker(C11_FAMILIES[family])

            for _i in range(1200):
                tracker = tracker0.clone()
                steps = []

                for _d in range(3):
                    labels = [label for label in tracker.apps
                              if tracker.apps[label]]

                    if not labels:
                        break

                    label = rng.choice(labels)
                    desc = rng.choice(tracker.candidates(label, rich=True))
                    steps.append([label, desc])
                    tracker.apply(label, desc)

                if len(steps) == 3:
                    triples.append(steps)

            for steps in triples:
                scenarios.append((family, steps, 'separate'))
                scenarios.append((family, steps, 'simulate'))

    return scenarios, exhaustive


def _json(value):
    return json.loads(json.dumps(H.to_jsonable(value)))


def _is_known(prop, clause, inputs, observed=None):
    for entry in KNOWN:
        if entry['property'] != prop or entry['clause'] != clause:
            continue

        if entry['predicate'](inputs, observed):
            return entry['id']

    return None


def _run_suite(prop, scenarios, runner, describe, tier, exhaustive, rule,
               time_budget=None):
    t0 = time.time()
    evaluations = 0
    nontrivial = set()
    failures = []
    failure_counts = OrderedDict()
    skipped = OrderedDict()
    skipped_examples = OrderedDict()
    samples = []
    truncated = False

    for scenario in scenarios:
        if time_budget and time.time() - t0 > time_budget:
            truncated = True
            break

        inputs = describe(scenario)
        outcome = runner(scenario)
        evaluations += 1

        if outcome.get('error'):
            key = '%s/%s' % (outcome['error'].get('phase'),
                             outcome['error'].get('class'))
            skipped[key] = skipped.get(key, 0) + 1

            if key not in skipped_examples:
                skipped_examples[key] = {
                    'inputs': _json(inputs),
                    'message': outcome['error'].get('message')}

            if outcome.get('error_is_failure'):
                pass
            else:
                continue

        if outcome.get('nontrivial'):
            nontrivial.add(json.dumps(_json(inputs), sort_keys=True))

        if len(samples) < 3 and outcome.get('nontrivial') and \
           evaluations % 7 == 1:
            samples.append({'inputs': _json(inputs),
                            'outcome': 'ok' if not outcome['failures']
                            else _json(outcome['failures'][:2])})

        for clause, observed in outcome['failures']:
            known_id = _is_known(prop, clause, inputs, observed)
            known = bool(known_id)
            key = '%s%s' % (clause, (' | ' + known_id) if known else ' (UNKNOWN)')
            failure_counts[key] = failure_counts.get(key, 0) + 1
            per_clause = sum(1 for item in failures
                             if item['clause'] == clause and
                             item['known'] == known)

            if len(failures) < 10 and per_clause < (2 if known else 5):
                failures.append({'clause': clause,
                                 'inputs': _json(inputs),
                                 'observed': _json(observed),
                                 'known': known, 'known_id': known_id})

    if not samples and evaluations:
        samples.append({'inputs': _json(describe(scenarios[0])),
                        'outcome': 'see failures/skip counts'})

    return {
        'evaluations': evaluations,
        'distinct_nontrivial': len(nontrivial),
        'failures': failures,
        'failure_counts': failure_counts,
        'skipped': skipped,
        'skipped_examples': skipped_examples,
        'samples': samples,
        'exhaustive': bool(exhaustive and not truncated),
        'truncated_by_time_budget': truncated,
        'rule': rule,
        'elapsed': round(time.time() - t0, 2),
    }


def suite_C11(tier='quick', seed=0):
    psetup()
    scenarios, exhaustive = _c11_scenarios(tier, seed)

    def describe(scenario):
        family, steps, mode = scenario
        return {'family': family, 'steps': steps, 'mode': mode}

    def runner(scenario):
        family, steps, mode = scenario
        return c11_run(family, steps, mode)

    rule = (
        'Three fixed 2-app projects (C11_FAMILIES: shop/crm with cross-app '
        'FK/O2O/M2M and model names that are prefixes of each other; '
        'tree/forest with self FK, self M2M and two FKs to one model; '
        'lib/ext with a CharField primary key referenced from both apps). '
        'Mutation alphabet derived from the current project state (Tracker.'
        'candidates): RenameModel to an extended/truncated name with the old '
        'or a new db_table, DeleteModel, RenameField/DeleteField of every '
        'relation and custom pk field, DeleteApplication, RenameAppLabel '
        '(whole app, extended/truncated label, and model_names subsets). '
        'quick: ALL single mutations (AppMutator + real SQL, and signature-'
        'only through run_simulation) + %s ordered pairs per project '
        '(separately and, for same-app pairs, as one AppMutator batch / as '
        'the Evolver would run an app with a legacy label); thorough: ALL '
        'ordered pairs + 1200 random triples per project. A scenario is '
        'non-trivial when the real code accepted every mutation (no '
        'SimulationFailure/other exception) so that the clauses were '
        'evaluated; rejected scenarios are only counted in "skipped".'
        % ('60 random' if tier == 'quick' else 'all'))

    return _run_suite('C11', scenarios, runner, describe, tier, exhaustive,
                      rule)


def replay_C11(inputs):
    outcome = c11_run(inputs['family'], inputs['steps'],
                      inputs.get('mode', 'separate'))
    return {'reproduced': bool(outcome['failures']),
            'clauses': sorted(set(item[0] for item in outcome['failures'])),
            'error': outcome['error'],
            'failures': _json(outcome['failures'])}


# ---------------------------------------------------------------------------
# Evolver-level helpers (C14, C15, C16)
# ---------------------------------------------------------------------------

def stored_sig(database='default'):
    """{app_id: serialized app signature} of the latest stored Version."""
    from django_evolution.models import Version

    version = Version.objects.using(database).order_by('-pk')[0]
    data = version.signature.serialize()

    return OrderedDict((app_id, H._plain(app_data))
                       for app_id, app_data in data['apps'].items())


def evolver_install(database='default'):
    """Bring a database up to the installed apps (tables + baseline)."""
    from django_evolution.evolve import Evolver

    evolver = Evolver(database_name=database)
    evolver.queue_evolve_all_apps()
    evolver.evolve()


_SKIP_TRACE = ('SAVEPOINT', 'RELEASE SAVEPOINT', 'ROLLBACK', 'BEGIN',
               'COMMIT', 'SELECT', 'PRAGMA FOREIGN_KEYS',
               'PRAGMA FOREIGN_KEY_CHECK', 'PRAGMA TABLE_INFO',
               'PRAGMA INDEX_LIST', 'PRAGMA INDEX_INFO',
               'PRAGMA FOREIGN_KEY_LIST', 'PRAGMA TABLE_XINFO',
               'PRAGMA INDEX_XINFO')

_BOOKKEEPING_TABLES = ('django_project_version', 'django_evolution',
                       'django_content_type', 'auth_permission',
                       'django_migrations')


def run_custom_task(app_label, evolutions, database='default', trace=None):
    """Evolve ONE app through the public task API with explicit evolutions:
    ``EvolveAppTask(evolver, app, evolutions=[{'label':, 'mutations':}])``.

    Same return value as :func:`run_evolve_command`.
    """
    from django.db import connections
    from django_evolution.compat.apps import get_app
    from django_evolution.evolve import EvolveAppTask, Evolver

    result = {'error': None, 'stdout': '', 'stderr': ''}

    with contextlib.ExitStack() as stack:
        for alias, sink in (trace or {}).items():
            def recorder(execute, sql, params, many, context, _sink=sink):
                _sink.append((sql, params))
                return execute(sql, params, many, context)

            stack.enter_context(connections[alias].execute_wrapper(recorder))

        with warnings.catch_warnings():
            warnings.simplefilter('ignore')

            try:
                evolver = Evolver(database_name=database)
                evolver.queue_task(EvolveAppTask(
                    evolver=evolver, app=get_app(app_label),
                    evolutions=[
                        {'label': evo_label,
                         'mutations': [make_mutation(desc)
                                       for desc in descs]}
                        for evo_label, descs in evolutions]))
                evolver.evolve()
            except Exception as e:
                result['error'] = {'class': type(e).__name__,
                                   'message': str(e)[:400]}

    for alias in ALIASES:
        H._reset_connection(connections[alias])

    try:
        from django_evolution.utils.migrations import \
            clear_global_custom_migrations
        clear_global_custom_migrations()
    except Exception:
        pass

    return result


def run_evolve_command(database='default', trace=None, **options):
    """call_command('evolve', ...) with captured output.

    Args:
        trace: optional dict alias -> list; every statement sent to that
            connection while the command runs is appended as (sql, params).

    Returns:
        dict: 'error' (None or class/message), 'stdout', 'stderr'.
    """
    from django.core.management import call_command
    from django.core.management.base import CommandError
    from django.db import connections

    out = io.StringIO()
    err = io.StringIO()
    result = {'error': None}
    options.setdefault('verbosity', 1)
    options.setdefault('interactive', False)

    if database != 'default':
        options['database'] = database

    with contextlib.ExitStack() as stack:
        for alias, sink in (trace or {}).items():
            def recorder(execute, sql, params, many, context, _sink=sink):
                _sink.append((sql, params))
                return execute(sql, params, many, context)

            stack.enter_context(connections[alias].execute_wrapper(recorder))

        with warnings.catch_warnings():
            warnings.simplefilter('ignore')

            try:
                call_command('evolve', stdout=out, stderr=err, **options)
            except CommandError as e:
                result['error'] = {'class': 'CommandError',
                                   'message': str(e)[:400]}
            except Exception as e:
                result['error'] = {'class': type(e).__name__,
                                   'message': str(e)[:400]}

    for alias in ALIASES:
        H._reset_connection(connections[alias])

    try:
        # Process hygiene only (each real command is its own process): a
        # failing prepare_tasks() leaves this module-global set.
        from django_evolution.utils.migrations import \
            clear_global_custom_migrations
        clear_global_custom_migrations()
    except Exception:
        pass

    result['stdout'] = out.getvalue()
    result['stderr'] = err.getvalue()

    return result


# ---------------------------------------------------------------------------
# C15
# ---------------------------------------------------------------------------

# App pool; an app may only reference apps listed before it, so any
# upward-closed set of apps can be taken out of INSTALLED_APPS.
C15_POOL = OrderedDict([
    ('shop', OrderedDict([
        ('Tag', {'fields': OrderedDict([('label', _c())]),
                 # prefix of the auto m2m table "shop_item_tags"
                 'meta': {'db_table': 'shop_item_tag'}}),
        ('Item', {'fields': OrderedDict([
            ('name', _c()),
            ('tags', ('ManyToManyField', {'to': 'Tag'})),
        ])}),
    ])),
    ('shop_item', OrderedDict([
        # label extends "shop"; table "shop_item_tagset" extends both the
        # custom table and the m2m table of the shop app
        ('Tagset', {'fields': OrderedDict([
            ('item', ('ForeignKey', {'to': 'shop.Item'})),
            ('extra', ('ManyToManyField', {'to': 'shop.Tag'})),
        ])}),
    ])),
    ('crm', OrderedDict([
        ('Customer', {'fields': OrderedDict([
            ('fav', ('ForeignKey', {'to': 'shop.Item', 'null': True})),
            ('friends', ('ManyToManyField', {'to': 'self'})),
        ])}),
        # prefix of the auto m2m table "crm_customer_friends"
        ('Friend', {'fields': OrderedDict([('name', _c())]),
                    'meta': {'db_table': 'crm_customer_friend'}}),
    ])),
    ('crmx', OrderedDict([
        ('Note', {'fields': OrderedDict([
            ('customer', ('ForeignKey', {'to': 'crm.Customer'})),
            # m2m table that looks as if it belonged to the crm app
            ('items', ('ManyToManyField', {'to': 'shop.Item',
                                           'db_table': 'crm_note'})),
        ])}),
    ])),
])

C15_DEPS = {'shop': [], 'shop_item': ['shop'], 'crm': ['shop'],
            'crmx': ['crm', 'shop']}

C15_PROJECTS = [
    ['shop', 'shop_item'],
    ['shop', 'crm'],
    ['shop', 'shop_item', 'crm'],
    ['shop', 'crm', 'crmx'],
    ['shop', 'shop_item', 'crm', 'crmx'],
]


def _upward_closed(labels, removed):
    return all(label in removed
               for label in labels
               for dep in C15_DEPS[label]
               if dep in removed)


def _c15_diff_db(before, after, expect_dropped):
    """Clauses about tables and rows.  ``expect_dropped`` = set of tables."""
    failures = []
    still_there = sorted(table for table in expect_dropped
                         if table in after)
    missing = sorted(table for table in before
                     if table not in after and table not in expect_dropped)
    extra = sorted(table for table in after if table not in before)

    if still_there:
        failures.append(('drops-owned-tables', {'not_dropped': still_there}))

    if missing:
        failures.append(('drops-nothing-else', {'also_dropped': missing}))

    if extra:
        failures.append(('drops-nothing-else', {'new_tables': extra}))

    for table, info in before.items():
        if table in expect_dropped or table not in after:
            continue

        for key in ('create_sql', 'index_sql', 'rows'):
            if info[key] != after[table][key]:
                failures.append(('other-tables-unchanged', {
                    'table': table, 'what': key,
                    'before': info[key], 'after': after[table][key]}))

    return failures


def _c15_diff_sig(before, after, removed_apps=(), removed_models=()):
    """Clauses about the stored signature.

    removed_apps: app ids whose whole entry must be gone.
    removed_models: (app_id, model_name) entries that must be gone.
    """
    failures = []
    removed_models = set(tuple(item) for item in removed_models)

    for app_id in removed_apps:
        if app_id in after:
            failures.append(('sig-entries-removed', {
                'app': app_id, 'left_behind': after[app_id]}))

    for app_id, model_name in removed_models:
        if model_name in (after.get(app_id) or {}).get('models', {}):
            failures.append(('sig-entries-removed', {
                'model': '%s.%s' % (app_id, model_name)}))

    for app_id, app_data in before.items():
        if app_id in removed_apps:
            continue

        if app_id not in after:
            failures.append(('other-sig-unchanged', {
                'app': app_id, 'problem': 'entry disappeared'}))
            continue

        expected = copy.deepcopy(app_data)

        for model_app, model_name in removed_models:
            if model_app == app_id:
                expected.get('models', {}).pop(model_name, None)

        if expected != after[app_id]:
            failures.append(('other-sig-unchanged', {
                'app': app_id, 'before': expected,
                'after': after[app_id]}))

    for app_id in after:
        if app_id not in before:
            failures.append(('other-sig-unchanged', {
                'app': app_id, 'problem': 'entry appeared'}))

    return failures


C15_PENDING = ['AddField', 'Tag', 'extra', 'IntegerField', {'null': True}]


def c15_run_purge(labels, removed, flow, pending=False, variant=None):
    """Stale-app scenario.

    Args:
        labels: apps of the project (keys of C15_POOL), all installed first.
        removed: apps then taken out of INSTALLED_APPS (upward closed).
        flow: 'command-purge' (evolve --execute --purge), 'command-nopurge'
            (evolve --execute), 'api-purge' (Evolver.queue_purge_old_apps),
            'api-nopurge' (Evolver without purge tasks) or
            ['api-purge-app', label] (Evolver.queue_purge_app(label) only).
        pending: if True (and the app "shop" stays installed) the same run
            also has real work to do: shop gets a pending evolution
            (C15_PENDING, a new nullable column on shop.Tag), so that a new
            project version IS saved.  The table and signature entry of
            shop are then exempt from the "unchanged" clauses.
        variant: None or 'reversed' (models of every app declared in
            reverse order).
    """
    from django_evolution.evolve import Evolver

    psetup()
    result = {'error': None, 'failures': [], 'nontrivial': False}
    pool = _c15_variant(variant) or C15_POOL
    apps_spec = OrderedDict((label, pool[label]) for label in labels)
    kept = [label for label in labels if label not in removed]
    pcleanup(labels)

    try:
        with warnings.catch_warnings():
            warnings.simplefilter('ignore')

            try:
                model_maps = build_project(apps_spec)
                install_apps(labels)
                evolver_install()
                owned = owned_tables(model_maps)
                H._insert_rows({}, _default_rows(model_maps), 'default')
                db_before = db_snapshot()
                sig_before = stored_sig()

                # The new code base: only the kept apps exist.
                new_spec = OrderedDict(
                    (label, pool[label]) for label in kept)
                pending = bool(pending and 'shop' in kept)

                if pending:
                    new_spec['shop'] = apply_descs_to_spec(
                        pool['shop'], [C15_PENDING], 'shop')
                    set_evolutions('shop', [
                        ('add_extra', [make_mutation(C15_PENDING)])])

                build_project(new_spec)
                install_apps(kept)
            except Exception as e:
                result['error'] = _error_info(e, 'setup')
                return result

            purged = []
            run_error = None

            if flow in ('command-purge', 'command-nopurge'):
                outcome = run_evolve_command(
                    execute=True, purge=(flow == 'command-purge'))
                run_error = outcome['error']

                if run_error:
                    run_error['stdout'] = outcome['stdout'][-300:]

                if flow == 'command-purge':
                    purged = list(removed)
            else:
                try:
                    evolver = Evolver()
                    evolver.queue_evolve_all_apps()

                    if flow == 'api-purge':
                        evolver.queue_purge_old_apps()
                        purged = list(removed)
                    elif isinstance(flow, (list, tuple)):
                        evolver.queue_purge_app(flow[1])
                        purged = [flow[1]]

                    evolver.evolve()
                except Exception as e:
                    run_error = {'class': type(e).__name__,
                                 'message': str(e)[:400]}

            from django.db import connections
            H._reset_connection(connections['default'])
            db_after = db_snapshot()
            sig_after = stored_sig()

        result['nontrivial'] = True
        expect_dropped = set(table for label in purged
                             for tables in owned[label].values()
                             for table in tables)

        if pending:
            # shop.Tag legitimately changes in this run.
            tag_table = db_after.get(owned['shop']['Tag'][0])

            if not run_error and not (tag_table and any(
                    column[0] == 'extra'
                    for column in tag_table['columns'])):
                result['error'] = {'class': 'ScenarioInvalid',
                                   'phase': 'pending',
                                   'message': 'pending evolution of shop '
                                              'was not applied'}
                return result

            for snapshot in (db_before, db_after):
                snapshot.pop(owned['shop']['Tag'][0], None)

            for snapshot in (sig_before, sig_after):
                snapshot.pop('shop', None)

        if run_error:
            result['failures'].append((
                'purge-runs' if purged else 'no-purge-runs', run_error))
            # Nothing may have been touched then.
            result['failures'] += [
                item for item in _c15_diff_db(db_before, db_after, set())
                if item[0] != 'drops-owned-tables']
            result['failures'] += _c15_diff_sig(sig_before, sig_after)
        else:
            result['failures'] += _c15_diff_db(db_before, db_after,
                                               expect_dropped)
            result['failures'] += _c15_diff_sig(sig_before, sig_after,
                                                removed_apps=purged)

        if not purged:
            result['failures'] = [
                ('no-purge-keeps-' + ('tables' if clause in (
                    'drops-nothing-else', 'other-tables-unchanged')
                    else 'sig') if clause != 'no-purge-runs' else clause,
                 observed)
                for clause, observed in result['failures']]
    finally:
        pcleanup(labels)

    return result


def c15_run_delete(labels, app_label, desc, variant=None):
    """DeleteModel / DeleteApplication through an AppMutator on real tables.

    Args:
        labels: apps of the project (keys of C15_POOL or of ``variant``).
        app_label: app the mutation is run for.
        desc: ['DeleteModel', name] or ['DeleteApplication'].
        variant: optional replacement apps spec (JSON-able) used instead of
            C15_POOL entries.
    """
    from django_evolution.mutators import AppMutator

    psetup()
    result = {'error': None, 'failures': [], 'nontrivial': False}
    pool = variant or C15_POOL
    apps_spec = OrderedDict((label, pool[label]) for label in labels)
    pcleanup(labels)

    try:
        with warnings.catch_warnings():
            warnings.simplefilter('ignore')

            try:
                model_maps = build_project(apps_spec)
                project_sig = project_sig_of(model_maps)
                create_tables(model_maps)
                owned = owned_tables(model_maps)
                H._insert_rows({}, _default_rows(model_maps), 'default')
                db_before = db_snapshot()
                sig_before = OrderedDict(
                    (app_id, H._plain(app_data)) for app_id, app_data in
                    project_sig.serialize()['apps'].items())
            except Exception as e:
                result['error'] = _error_info(e, 'setup')
                return result

            run_error = None
            phase = 'simulate'

            try:
                app_mutator = AppMutator(
                    app_label=app_label, project_sig=project_sig,
                    database_state=H.scan_database_state('default'),
                    database='default')
                app_mutator.run_mutations([make_mutation(desc)])
                phase = 'sql'
                sql = app_mutator.to_sql()
                phase = 'execute'
                H._execute(sql, 'default', check_constraints=False)
            except H._ExecuteError as e:
                run_error = _error_info(e.original, phase,
                                        failed=e.failed_statement)
            except Exception as e:
                run_error = _error_info(e, phase)

            from django.db import connections
            H._reset_connection(connections['default'])
            db_after = db_snapshot()
            sig_after = OrderedDict(
                (app_id, H._plain(app_data)) for app_id, app_data in
                project_sig.serialize()['apps'].items())

        if run_error and run_error['class'] in REJECTIONS:
            result['error'] = run_error
            return result

        result['nontrivial'] = True

        if desc[0] == 'DeleteModel':
            names = [desc[1]]
        else:
            names = list(owned[app_label])

        expect_dropped = set(table for name in names
                             for table in owned[app_label][name])

        if run_error:
            result['failures'].append(('delete-runs', run_error))
        else:
            result['failures'] += _c15_diff_db(db_before, db_after,
                                               expect_dropped)
            result['failures'] += _c15_diff_sig(
                sig_before, sig_after,
                removed_models=[(app_label, name) for name in names])
    finally:
        pcleanup(labels)

    return result


def c15_run_evolve_delete(labels, deletions):
    """Deletion by evolution through the real ``evolve --execute``.

    Args:
        deletions: {app_label: ['DeleteModel', name] | ['DeleteApplication']}
            The new code base lacks the deleted models; each named app gets
            an evolution ``del`` holding the mutation.
    """
    psetup()
    result = {'error': None, 'failures': [], 'nontrivial': False}
    apps_spec = OrderedDict((label, C15_POOL[label]) for label in labels)
    pcleanup(labels)

    try:
        with warnings.catch_warnings():
            warnings.simplefilter('ignore')

            try:
                model_maps = build_project(apps_spec)
                install_apps(labels)
                evolver_install()
                owned = owned_tables(model_maps)
                H._insert_rows({}, _default_rows(model_maps), 'default')
                db_before = db_snapshot()
                sig_before = stored_sig()

                new_spec = OrderedDict()
                removed_models = []

                for label in labels:
                    models_spec = OrderedDict(C15_POOL[label])
                    desc = deletions.get(label)

                    if desc:
                        names = ([desc[1]] if desc[0] == 'DeleteModel'
                                 else list(models_spec))

                        for name in names:
                            del models_spec[name]
                            removed_models.append((label, name))

                        set_evolutions(label,
                                       [('del', [make_mutation(desc)])])

                    new_spec[label] = models_spec

                build_project(new_spec)
                install_apps(labels)
            except Exception as e:
                result['error'] = _error_info(e, 'setup')
                return result

            outcome = run_evolve_command(execute=True)
            db_after = db_snapshot()
            sig_after = stored_sig()

        result['nontrivial'] = True
        expect_dropped = set(table for label, name in removed_models
                             for table in owned[label][name])

        if outcome['error']:
            outcome['error']['stdout'] = outcome['stdout'][-300:]
            result['failures'].append(('delete-runs', outcome['error']))
        else:
            result['failures'] += _c15_diff_db(db_before, db_after,
                                               expect_dropped)
            result['failures'] += _c15_diff_sig(
                sig_before, sig_after, removed_models=removed_models)
    finally:
        pcleanup(labels)

    return result


C15_THROUGH_VARIANT = OrderedDict([
    ('lib', OrderedDict([
        ('Book', {'fields': OrderedDict([
            ('title', _c()),
            ('authors', ('ManyToManyField', {'to': 'Author',
                                             'through': 'lib.Credit'})),
        ])}),
        ('Author', {'fields': OrderedDict([('name', _c())])}),
        ('Credit', {'fields': OrderedDict([
            ('book', ('ForeignKey', {'to': 'Book'})),
            ('author', ('ForeignKey', {'to': 'Author'})),
        ])}),
    ])),
    ('libx', OrderedDict([
        ('Loan', {'fields': OrderedDict([
            ('book', ('ForeignKey', {'to': 'lib.Book'})),
        ]), 'meta': {'db_table': 'lib_book_loan'}}),
    ])),
])


def _reversed_pool(pool):
    return OrderedDict(
        (label, OrderedDict(reversed(list(models_spec.items()))))
        for label, models_spec in pool.items())


def _c15_scenarios(tier, seed):
    scenarios = []

    for labels in C15_PROJECTS:
        subsets = []

        for size in range(1, len(labels) + 1):
            for removed in itertools.combinations(labels, size):
                if _upward_closed(labels, removed):
                    subsets.append(list(removed))

        for removed in subsets:
            flows = ['command-purge', 'api-purge', 'command-nopurge']

            if tier != 'quick':
                flows.append('api-nopurge')

            if len(removed) > 1 and (tier != 'quick' or len(labels) == 4):
                flows += [['api-purge-app', label] for label in removed]

            for flow in flows:
                scenarios.append(('purge', labels, removed, flow, False,
                                  None))

            if tier != 'quick':
                for flow in ('command-purge', 'api-purge'):
                    scenarios.append(('purge', labels, removed, flow, False,
                                      'reversed'))

            if 'shop' not in removed and (tier != 'quick' or
                                          len(labels) in (2, 4)):
                # the same run also applies a pending evolution of shop
                for flow in (['command-nopurge', 'api-purge']
                             if tier == 'quick' else
                             ['command-nopurge', 'api-nopurge',
                              'api-purge', 'command-purge']):
                    scenarios.append(('purge', labels, removed, flow, True,
                                      None))

    for labels in C15_PROJECTS:
        if tier == 'quick' and len(labels) not in (2, 4):
            continue

        for variant_name in (None, 'reversed'):
            for label in labels:
                descs = [['DeleteApplication']] + [
                    ['DeleteModel', name] for name in C15_POOL[label]]

                for desc in descs:
                    scenarios.append(('delete', labels, label, desc,
                                      variant_name))

    for label in C15_THROUGH_VARIANT:
        descs = [['DeleteApplication']] + [
            ['DeleteModel', name] for name in C15_THROUGH_VARIANT[label]]

        for desc in descs:
            scenarios.append(('delete', list(C15_THROUGH_VARIANT), label,
                              desc, 'through'))

    # Deletion by evolution through `evolve --execute`: only models / apps
    # nothing in the remaining code refers to.
    evolve_deletes = [
        (['shop', 'shop_item', 'crm', 'crmx'],
         {'crmx': ['DeleteModel', 'Note']}),
        (['shop', 'shop_item', 'crm', 'crmx'],
         {'shop_item': ['DeleteApplication']}),
        (['shop', 'crm'], {'crm': ['DeleteModel', 'Friend']}),
    ]

    if tier != 'quick':
        evolve_deletes += [
            (['shop', 'shop_item', 'crm', 'crmx'],
             {'crmx': ['DeleteApplication']}),
            (['shop', 'shop_item', 'crm', 'crmx'],
             {'crmx': ['DeleteApplication'], 'crm': ['DeleteApplication']}),
            (['shop', 'shop_item', 'crm', 'crmx'],
             {'crmx': ['DeleteModel', 'Note'],
              'shop_item': ['DeleteModel', 'Tagset'],
              'crm': ['DeleteModel', 'Friend']}),
            (['shop', 'shop_item'], {'shop_item': ['DeleteModel', 'Tagset']}),
            (['shop', 'shop_item'], {'shop_item': ['DeleteApplication'],
                                     'shop': ['DeleteApplication']}),
            (['shop', 'crm', 'crmx'], {'crm': ['DeleteModel', 'Friend'],
                                       'crmx': ['DeleteApplication']}),
        ]

    for labels, deletions in evolve_deletes:
        scenarios.append(('evolve-delete', labels, deletions))

    return scenarios


def _c15_variant(name):
    if name == 'reversed':
        return _reversed_pool(C15_POOL)

    if name == 'through':
        return C15_THROUGH_VARIANT

    return None


def _c15_dispatch(scenario):
    kind = scenario[0]

    if kind == 'purge':
        return c15_run_purge(scenario[1], scenario[2], scenario[3],
                             pending=scenario[4], variant=scenario[5])

    if kind == 'delete':
        return c15_run_delete(scenario[1], scenario[2], scenario[3],
                              variant=_c15_variant(scenario[4]))

    return c15_run_evolve_delete(scenario[1], scenario[2])


def _c15_describe(scenario):
    kind = scenario[0]

    if kind == 'purge':
        return {'kind': kind, 'apps': scenario[1], 'removed': scenario[2],
                'flow': scenario[3], 'pending': scenario[4],
                'variant': scenario[5]}

    if kind == 'delete':
        return {'kind': kind, 'apps': scenario[1], 'app': scenario[2],
                'mutation': scenario[3], 'variant': scenario[4]}

    return {'kind': kind, 'apps': scenario[1], 'deletions': scenario[2]}


def suite_C15(tier='quick', seed=0):
    psetup()
    scenarios = _c15_scenarios(tier, seed)
    rule = (
        'Projects = the 5 dependency-closed selections of 2-4 apps from '
        'C15_POOL (shop, shop_item, crm, crmx: cross-app FK and M2M, self '
        'M2M, a custom M2M db_table, custom db_table names that are '
        'prefixes of auto M2M table names, an app label that is a prefix of '
        'another). (1) purge: every project is installed through the real '
        'Evolver, rows are inserted, then EVERY upward-closed non-empty set '
        'of apps is taken out of the app registry and the upgrade is run '
        'as `evolve --execute --purge`, as Evolver.queue_purge_old_apps(), '
        'as `evolve --execute` without purge%s and (quick: 4-app project '
        'only) as Evolver.queue_purge_app() for each single stale app; '
        'where the app shop stays installed the purge / no-purge runs are '
        'repeated with a pending evolution of shop in the same run (so '
        'that a new project version is really saved)%s; '
        '(2) delete: every DeleteModel/DeleteApplication of every app of '
        '%s, in declared and reversed model order plus a project with an '
        'explicit through model, through an AppMutator on real tables; '
        '(3) %d deletions by evolution through `evolve --execute`. '
        'Exhaustive over that scope (no sampling). Every scenario that '
        'gets as far as the purge/delete request is non-trivial.'
        % (', as Evolver without purge tasks' if tier != 'quick' else '',
           '' if tier == 'quick' else ' and both purge flows once more '
           'with every app\'s models declared in reverse order',
           'the 2- and 4-app projects' if tier == 'quick'
           else 'all projects', 3 if tier == 'quick' else 9))

    return _run_suite('C15', scenarios, _c15_dispatch, _c15_describe, tier,
                      True, rule)


def replay_C15(inputs):
    kind = inputs['kind']

    if kind == 'purge':
        flow = inputs['flow']
        outcome = c15_run_purge(inputs['apps'], inputs['removed'],
                                tuple(flow) if isinstance(flow, list)
                                else flow,
                                pending=inputs.get('pending', False),
                                variant=inputs.get('variant'))
    elif kind == 'delete':
        outcome = c15_run_delete(inputs['apps'], inputs['app'],
                                 inputs['mutation'],
                                 variant=_c15_variant(inputs.get('variant')))
    else:
        outcome = c15_run_evolve_delete(inputs['apps'], inputs['deletions'])

    return {'reproduced': bool(outcome['failures']),
            'clauses': sorted(set(item[0] for item in outcome['failures'])),
            'error': outcome['error'],
            'failures': _json(outcome['failures'])}


# ---------------------------------------------------------------------------
# Spec transformer (derives the target models of an evolution)
# ---------------------------------------------------------------------------

def apply_descs_to_spec(models_spec, descs, label=None):
    """Return the models spec of ONE app after the mutations ``descs``.

    Supports the vocabulary of :func:`make_mutation` except RenameAppLabel.
    Relation targets inside the same app are renamed along with RenameModel.
    """
    spec = copy.deepcopy(models_spec)

    def rename_key(mapping, old, new):
        return OrderedDict((new if key == old else key, value)
                           for key, value in mapping.items())

    for desc in descs:
        kind = desc[0]

        if kind == 'AddField':
            attrs = dict(desc[4] if len(desc) > 4 else {})
            attrs.pop('initial', None)
            related = attrs.pop('related_model', None)

            if related:
                attrs['to'] = related

            spec[desc[1]].setdefault('fields', OrderedDict())[desc[2]] = (
                desc[3], attrs)
        elif kind == 'DeleteField':
            del spec[desc[1]]['fields'][desc[2]]
            meta = spec[desc[1]].get('meta') or {}

            if 'unique_together' in meta:
                meta['unique_together'] = [
                    item for item in (
                        [name for name in entry if name != desc[2]]
                        for entry in meta['unique_together'])
                    if item]
        elif kind == 'RenameField':
            attrs = dict(desc[4] if len(desc) > 4 else {})
            fields = spec[desc[1]]['fields']
            type_name, kwargs = fields[desc[2]][0], dict(
                fields[desc[2]][1] if len(fields[desc[2]]) > 1 else {})

            if type_name == 'ManyToManyField':
                kwargs.pop('db_table', None)

                if attrs.get('db_table'):
                    kwargs['db_table'] = attrs['db_table']
            else:
                kwargs.pop('db_column', None)

                if attrs.get('db_column'):
                    kwargs['db_column'] = attrs['db_column']

            fields[desc[2]] = (type_name, kwargs)
            spec[desc[1]]['fields'] = rename_key(fields, desc[2], desc[3])
            meta = spec[desc[1]].get('meta') or {}

            for key in ('unique_together', 'index_together'):
                if key in meta:
                    meta[key] = [[desc[3] if name == desc[2] else name
                                  for name in entry] for entry in meta[key]]
        elif kind == 'ChangeField':
            attrs = dict(desc[3] if len(desc) > 3 else {})
            attrs.pop('initial', None)
            fields = spec[desc[1]]['fields']
            type_name, kwargs = fields[desc[2]][0], dict(
                fields[desc[2]][1] if len(fields[desc[2]]) > 1 else {})
            kwargs.update(attrs)
            fields[desc[2]] = (type_name, kwargs)
        elif kind == 'ChangeMeta':
            spec[desc[1]].setdefault('meta', {})[desc[2]] = copy.deepcopy(
                desc[3])
        elif kind == 'RenameModel':
            attrs = dict(desc[3] if len(desc) > 3 else {})
            spec = rename_key(spec, desc[1], desc[2])
            spec[desc[2]].setdefault('meta', {})['db_table'] = \
                attrs.get('db_table')

            for model_spec in spec.values():
                for name, info in list((model_spec.get('fields')
                                        or {}).items()):
                    kwargs = info[1] if len(info) > 1 else {}

                    if kwargs.get('to') in (desc[1], '%s.%s' % (label,
                                                                desc[1])):
                        kwargs = dict(kwargs, to=desc[2])
                        model_spec['fields'][name] = (info[0], kwargs)
        elif kind == 'DeleteModel':
            del spec[desc[1]]
        elif kind == 'DeleteApplication':
            spec = OrderedDict()
        else:
            raise ValueError('cannot apply %r to a spec' % (desc,))

    return spec


def trace_writes(statements):
    """Filter an execute_wrapper trace down to statements that change data
    or schema (reads, savepoints and FK pragmas are dropped)."""
    result = []

    for sql, params in statements:
        head = sql.strip().upper()

        if head.startswith(_SKIP_TRACE) or head.startswith('EXPLAIN'):
            continue

        result.append((sql.strip(), params))

    return result


def is_bookkeeping(sql):
    head = sql.strip().upper()

    for table in _BOOKKEEPING_TABLES:
        for verb in ('INSERT INTO', 'UPDATE', 'DELETE FROM'):
            if head.startswith('%s "%s"' % (verb, table.upper())):
                return True

    return False


@contextlib.contextmanager
def routers(router_objects):
    """The project's ``override_db_routers`` (base_test_case.py)."""
    from django.db import router
    from django.db.utils import ConnectionRouter
    from django.test.utils import override_settings

    try:
        with override_settings(DATABASE_ROUTERS=list(router_objects)):
            router.routers = ConnectionRouter().routers
            yield
    finally:
        router.routers = ConnectionRouter().routers


class ModelRouter(object):
    """Routes the models of the synthetic apps by model name.

    ``mapping`` = {app_label: {ModelName: alias}}; auto-created many-to-many
    models follow their owner.  Everything else is left to Django's default.
    """

    def __init__(self, mapping):
        self.mapping = mapping

    def _db(self, model):
        meta = model._meta

        if meta.app_label not in self.mapping:
            return None

        owner = meta.auto_created or model

        return self.mapping[meta.app_label].get(owner._meta.object_name)

    def db_for_read(self, model, **hints):
        return self._db(model)

    db_for_write = db_for_read

    def allow_migrate(self, db, app_label, model_name=None, **hints):
        model = hints.get('model')

        if model is None or app_label not in self.mapping:
            return None

        target = self._db(model)

        if target is None:
            return None

        return db == target


# ---------------------------------------------------------------------------
# C16
# ---------------------------------------------------------------------------

C16_APP = 'multi'

C16_MODELS = OrderedDict([
    ('Alpha', {'fields': OrderedDict([
        ('name', _c()), ('num', ('IntegerField', {'null': True}))])}),
    ('Beta', {'fields': OrderedDict([
        ('title', _c()), ('flag', ('IntegerField', {'default': 0}))])}),
    ('Gamma', {'fields': OrderedDict([
        ('code', _c()), ('size', ('IntegerField', {'null': True}))])}),
])


def c16_model_mutations(model_name):
    """The mutation alphabet for one model of C16_MODELS."""
    fields = list(C16_MODELS[model_name]['fields'])
    first, second = fields[0], fields[1]

    return [
        ['AddField', model_name, 'extra', 'IntegerField', {'null': True}],
        ['AddField', model_name, 'note', 'CharField',
         {'max_length': 20, 'initial': 'x'}],
        ['DeleteField', model_name, second],
        ['RenameField', model_name, second, second + '_r', {}],
        ['ChangeField', model_name, first, {'max_length': 30}],
        ['ChangeMeta', model_name, 'unique_together', [[first, second]]],
        # The table keeps its name: through the Evolver a renamed model
        # with a NEW table name is first created as a "new model" and the
        # rename then collides (unrelated to routing), so the control run
        # rejects that variant.
        ['RenameModel', model_name, model_name + 'X',
         {'db_table': '%s_%s' % (C16_APP, model_name.lower())}],
        ['DeleteModel', model_name],
    ]


def _schema_essentials(snapshot_table):
    return {'columns': snapshot_table['columns'],
            'index_sql': sorted(snapshot_table['index_sql'])}


def _tables_by_model(model_map):
    return owned_tables({C16_APP: model_map})[C16_APP]


def _route_after(routing, evolutions):
    routing = dict(routing)

    for _label, descs in evolutions:
        for desc in descs:
            if desc[0] == 'RenameModel':
                routing[desc[2]] = routing.pop(desc[1])
            elif desc[0] == 'DeleteModel':
                routing.pop(desc[1], None)
            elif desc[0] == 'DeleteApplication':
                routing.clear()

    return routing


def _upgrade_target(models_spec, evolutions, label):
    current = models_spec

    for _evo_label, descs in evolutions:
        current = apply_descs_to_spec(current, descs, label)

    return current


_c16_control_cache = {}


def _c16_upgrade(evolutions, flow, database, trace=None):
    if flow == 'task':
        return run_custom_task(C16_APP, evolutions, database=database,
                               trace=trace)

    return run_evolve_command(database=database, execute=True, trace=trace)


def _c16_control(models_spec, evolutions, flow='command'):
    """Single-database control run: the same upgrade with every model on
    'default' and no router.  Tells whether the generated upgrade is valid
    at all and what each model's tables / signature entry must look like."""
    key = json.dumps([_json(models_spec), evolutions, flow], sort_keys=True)

    if key in _c16_control_cache:
        return _c16_control_cache[key]

    result = {'error': None}
    pcleanup([C16_APP])

    try:
        with warnings.catch_warnings():
            warnings.simplefilter('ignore')
            build_project({C16_APP: models_spec})
            install_apps([C16_APP])
            evolver_install('default')
            target = _upgrade_target(models_spec, evolutions, C16_APP)
            maps = build_project({C16_APP: target})
            if flow != 'task':
                set_evolutions(C16_APP, [
                    (evo_label, [make_mutation(desc) for desc in descs])
                    for evo_label, descs in evolutions])

            install_apps([C16_APP])
            outcome = _c16_upgrade(evolutions, flow, 'default')

            if outcome['error']:
                result['error'] = dict(outcome['error'],
                                       stdout=outcome['stdout'][-300:])
            else:
                snapshot = db_snapshot('default')
                result['tables_by_model'] = _tables_by_model(maps[C16_APP])
                result['schema'] = dict(
                    (table, _schema_essentials(info))
                    for table, info in snapshot.items())
                result['sig_models'] = (stored_sig('default').get(C16_APP)
                                        or {}).get('models', {})
    except Exception as e:
        result['error'] = _error_info(e, 'control')
    finally:
        pcleanup([C16_APP])

    _c16_control_cache[key] = result

    return result


def _db_state(alias):
    from django_evolution.models import Evolution, Version

    return {
        'tables': db_snapshot(alias),
        'sig': stored_sig(alias),
        'versions': Version.objects.using(alias).count(),
        'evolutions': Evolution.objects.using(alias).count(),
    }


def c16_run(model_names, routing, evolutions, order, flow='command'):
    """One C16 scenario.

    Args:
        model_names: models of C16_MODELS in the app.
        routing: {ModelName: alias} for every model.
        evolutions: [[label, [descs]], ...] for the app.
        order: the order in which the two databases are evolved.
        flow: 'command' (evolutions discovered from the app's evolutions
            module, `evolve --execute --database X`) or 'task' (the same
            evolutions handed to ``EvolveAppTask(evolutions=...)``, the
            public API for caller-supplied evolutions, then
            ``Evolver(database_name=X).evolve()``).
    """
    psetup()
    result = {'error': None, 'failures': [], 'nontrivial': False}
    models_spec = OrderedDict((name, C16_MODELS[name])
                              for name in model_names)
    control = _c16_control(models_spec, evolutions, flow)

    if control['error']:
        result['error'] = dict(control['error'], phase='control')
        return result

    routing_after = _route_after(routing, evolutions)
    router_obj = ModelRouter({C16_APP: dict(routing, **routing_after)})
    pcleanup([C16_APP])

    try:
        with warnings.catch_warnings(), routers([router_obj]):
            warnings.simplefilter('ignore')

            # -- install --------------------------------------------------
            try:
                maps = build_project({C16_APP: models_spec})
                install_apps([C16_APP])

                for alias in order:
                    evolver_install(alias)

                start_tables = _tables_by_model(maps[C16_APP])
                rows = _default_rows(maps)
            except Exception as e:
                result['error'] = _error_info(e, 'install')
                return result

            for alias in ALIASES:
                expected = sorted(
                    table for name, tables in start_tables.items()
                    if routing[name] == alias for table in tables)
                actual = sorted(db_snapshot(alias))

                if actual != expected:
                    result['failures'].append(('install-routed', {
                        'database': alias, 'expected_tables': expected,
                        'tables': actual}))

                sig_models = sorted((stored_sig(alias).get(C16_APP) or {})
                                    .get('models', {}))
                expected_models = sorted(name for name in model_names
                                         if routing[name] == alias)

                if sig_models != expected_models:
                    result['failures'].append(('install-sig-routed', {
                        'database': alias, 'expected': expected_models,
                        'recorded': sig_models}))

                H._insert_rows({}, OrderedDict(
                    (table, table_rows) for table, table_rows in
                    rows.items() if table in actual), alias)

            if result['failures']:
                return result

            # -- upgrade --------------------------------------------------
            target = _upgrade_target(models_spec, evolutions, C16_APP)
            build_project({C16_APP: target})

            if flow != 'task':
                set_evolutions(C16_APP, [
                    (evo_label, [make_mutation(desc) for desc in descs])
                    for evo_label, descs in evolutions])

            install_apps([C16_APP])

            touched = set()

            for _label, descs in evolutions:
                for desc in descs:
                    if desc[0] == 'DeleteApplication':
                        touched.update(routing.values())
                    else:
                        name = desc[1]
                        # follow renames back to the start name
                        for back in evolutions:
                            for other in back[1]:
                                if (other[0] == 'RenameModel' and
                                    other[2] == name):
                                    name = other[1]

                        touched.add(routing.get(name))

            result['nontrivial'] = len(touched - set([None])) == 2

            for alias in order:
                other = [name for name in ALIASES if name != alias][0]
                other_before = _db_state(other)
                trace = {other: []}
                outcome = _c16_upgrade(evolutions, flow, alias, trace=trace)
                other_after = _db_state(other)

                if outcome['error']:
                    result['failures'].append(('evolve-succeeds', {
                        'database': alias, 'error': outcome['error'],
                        'stdout': outcome['stdout'][-300:]}))

                writes = trace_writes(trace[other])

                if writes:
                    result['failures'].append(('other-db-untouched', {
                        'evolved': alias, 'other': other,
                        'statements_sent_to_other': [
                            sql[:160] for sql, _params in writes[:5]]}))
                elif other_after != other_before:
                    result['failures'].append(('other-db-untouched', {
                        'evolved': alias, 'other': other,
                        'changed': [key for key in other_before
                                    if other_before[key] !=
                                    other_after[key]]}))

                if outcome['error']:
                    continue

                # This database must now hold exactly the target models the
                # router allows on it, shaped as in the control run.
                expected_tables = OrderedDict(
                    (table, control['schema'][table])
                    for name, tables in control['tables_by_model'].items()
                    if routing_after.get(name) == alias
                    for table in tables)
                snapshot = db_snapshot(alias)
                actual_tables = dict((table, _schema_essentials(info))
                                     for table, info in snapshot.items())

                if actual_tables != dict(expected_tables):
                    result['failures'].append(('schema-matches-routing', {
                        'database': alias,
                        'expected': expected_tables,
                        'actual': actual_tables}))

                expected_sig = dict(
                    (name, data)
                    for name, data in control['sig_models'].items()
                    if routing_after.get(name) == alias)
                actual_sig = (stored_sig(alias).get(C16_APP) or {}).get(
                    'models', {})

                if actual_sig != expected_sig:
                    result['failures'].append(('sig-matches-routing', {
                        'database': alias,
                        'expected_models': sorted(expected_sig),
                        'recorded_models': sorted(actual_sig),
                        'differing': sorted(
                            name for name in set(expected_sig) &
                            set(actual_sig)
                            if expected_sig[name] != actual_sig[name])}))
    finally:
        pcleanup([C16_APP])

    return result


def _c16_scenarios(tier, seed):
    rng = random.Random(seed)
    scenarios = []

    def add(model_names, evolutions_variants, assignments, orders,
            flows=('command',)):
        for routing in assignments:
            for evolutions in evolutions_variants:
                for order in orders:
                    for flow in flows:
                        scenarios.append((list(model_names), routing,
                                          evolutions, list(order), flow))

    two = ['Alpha', 'Beta']
    assignments2 = [dict(zip(two, combo)) for combo in
                    itertools.product(ALIASES, repeat=2)]
    pairs = [(first, second)
             for first in c16_model_mutations('Alpha')
             for second in c16_model_mutations('Beta')]
    orders = [ALIASES, tuple(reversed(ALIASES))]

    if tier == 'quick':
        # every mutation kind appears on each side at least once
        kinds = len(c16_model_mutations('Alpha'))
        chosen = [pairs[i * kinds + (i + 3) % kinds] for i in range(kinds)]
        chosen += rng.sample([pair for pair in pairs if pair not in chosen],
                             2)
        split = [assignments2[1], assignments2[2]]   # the two real splits

        for i, (first, second) in enumerate(chosen):
            variants = [[['e1', [first, second]]]] if i % 2 == 0 else \
                [[['e1', [second]], ['e2', [first]]]]
            add(two, variants, split, [orders[i % 2]])

        add(two, [[['e1', [['DeleteApplication']]]]], split, [orders[0]])

        # caller-supplied evolutions (EvolveAppTask(evolutions=...))
        for i, (first, second) in enumerate(chosen[:4]):
            add(two, [[['e1', [first, second]]]], [split[i % 2]],
                [orders[i % 2]], flows=('task',))

        # same-side assignments (trivial controls)
        add(two, [[['e1', list(chosen[0])]]],
            [assignments2[0], assignments2[3]], [orders[0]])
        exhaustive = False
    else:
        for first, second in pairs:
            add(two, [[['e1', [first, second]]]],
                [assignments2[1], assignments2[2]], orders)
            add(two, [[['e1', [second]], ['e2', [first]]]],
                [assignments2[1], assignments2[2]], [orders[1]])

        for first, second in rng.sample(pairs, 12):
            add(two, [[['e1', [first, second]]]],
                [assignments2[0], assignments2[3]], [orders[0]])

        add(two, [[['e1', [['DeleteApplication']]]]], assignments2, orders)

        for first, second in pairs:
            add(two, [[['e1', [first, second]]]],
                [assignments2[1], assignments2[2]], [orders[0]],
                flows=('task',))

        three = ['Alpha', 'Beta', 'Gamma']
        assignments3 = [dict(zip(three, combo)) for combo in
                        itertools.product(ALIASES, repeat=3)]
        triples = [(a, b, c)
                   for a in c16_model_mutations('Alpha')
                   for b in c16_model_mutations('Beta')
                   for c in c16_model_mutations('Gamma')]

        for a, b, c in rng.sample(triples, 40):
            add(three, [[['e1', [a, b]], ['e2', [c]]]],
                rng.sample(assignments3[1:-1], 3), [rng.choice(orders)])

        exhaustive = False

    return scenarios, exhaustive


def suite_C16(tier='quick', seed=0):
    psetup()
    scenarios, exhaustive = _c16_scenarios(tier, seed)

    def describe(scenario):
        return {'models': scenario[0], 'routing': scenario[1],
                'evolutions': scenario[2], 'order': scenario[3],
                'flow': scenario[4]}

    def runner(scenario):
        return c16_run(*scenario)

    rule = (
        'One synthetic app "multi" with the models Alpha/Beta(/Gamma) of '
        'C16_MODELS, a router (ModelRouter) sending each model to '
        '"default" or "db_multi"; both databases are installed through the '
        'real Evolver, rows inserted, then the code base moves to the '
        'target models and `evolve --execute --database X` is run for each '
        'database in turn. Mutation alphabet per model: AddField (null / '
        'with initial), DeleteField, RenameField, ChangeField(max_length), '
        'ChangeMeta(unique_together), RenameModel(same table), DeleteModel; '
        'plus DeleteApplication. %s Every generated upgrade is first run '
        'on a single database without router (control); scenarios whose '
        'control run is rejected are skipped, and the control provides the '
        'expected per-model tables and signature entries. Non-trivial = '
        'the evolution(s) name models on both databases.'
        % ('quick: 10 (Alpha-mutation, Beta-mutation) pairs covering every '
           'mutation kind on each side, in one evolution or two, x the two '
           'real splits of 2 models, plus DeleteApplication, same-side '
           'controls and 4 pairs handed to EvolveAppTask(evolutions=...) '
           '(flow "task").' if tier == 'quick' else
           'thorough: ALL 64 pairs x the two real splits, as one evolution '
           '(both database orders) and as two evolutions (db_multi first), '
           'DeleteApplication for '
           'all 4 assignments, 12 same-side controls, ALL 64 pairs x the '
           'two real splits through EvolveAppTask(evolutions=...) (flow '
           '"task") and 40 random 3-model scenarios (3 of the 6 real '
           'splits each).'))

    return _run_suite('C16', scenarios, runner, describe, tier, exhaustive,
                      rule)


def replay_C16(inputs):
    outcome = c16_run(inputs['models'], inputs['routing'],
                      inputs['evolutions'], inputs['order'],
                      inputs.get('flow', 'command'))
    return {'reproduced': bool(outcome['failures']),
            'clauses': sorted(set(item[0] for item in outcome['failures'])),
            'error': outcome['error'],
            'failures': _json(outcome['failures'])}


# ---------------------------------------------------------------------------
# C14
# ---------------------------------------------------------------------------

C14_MODELS = OrderedDict([
    ('pva', OrderedDict([
        ('Doc', {
            'fields': OrderedDict([
                ('title', _c(20)),
                ('pages', ('IntegerField', {'null': True})),
                ('code', _c(8)),
                ('rank', ('IntegerField', {'default': 0})),
                ('obsolete', ('IntegerField', {'null': True})),
            ]),
        }),
        # Only Meta changes touch Sheet (no table rebuild in the same run:
        # on the current tree a rebuild plus a unique_together/
        # index_together change of the same table generates SQL that fails
        # half way, which would hide everything after the failure).
        ('Sheet', {
            'fields': OrderedDict([
                ('title', _c(20)),
                ('pages', ('IntegerField', {'null': True})),
                ('code', _c(8)),
                ('rank', ('IntegerField', {'default': 0})),
            ]),
            'meta': {'unique_together': [['pages', 'code']],
                     'index_together': [['title', 'pages']]},
        }),
        ('Tag', {'fields': OrderedDict([
            ('label', _c()),
            ('weight', ('IntegerField', {'null': True})),
        ])}),
        ('Misc', {'fields': OrderedDict([
            ('x', ('IntegerField', {'null': True}))])}),
        ('Old', {'fields': OrderedDict([
            ('y', ('IntegerField', {'null': True}))])}),
        ('Extra', {'fields': OrderedDict([
            ('z', ('IntegerField', {'null': True}))])}),
    ])),
    ('pvb', OrderedDict([
        ('Memo', {'fields': OrderedDict([
            ('text', _c(30)),
            ('doc', ('ForeignKey', {'to': 'pva.Doc', 'null': True})),
            ('prio', ('IntegerField', {'null': True})),
            ('extra', ('IntegerField', {'null': True})),
            ('tmp', ('IntegerField', {'null': True})),
        ])}),
    ])),
])

# "Atoms": groups of mutations that are valid independently of each other
# (they touch disjoint fields/models), so any selection in any order is a
# valid evolution history.
C14_ATOMS = OrderedDict([
    ('pva', OrderedDict([
        ('ut3', [['ChangeMeta', 'Sheet', 'unique_together',
                  [['title', 'pages'], ['title', 'code'],
                   ['code', 'rank']]]]),
        ('it3', [['ChangeMeta', 'Sheet', 'index_together',
                  [['title', 'code'], ['pages', 'rank'],
                   ['code', 'pages']]]]),
        # the same on a table that other atoms rebuild in the same run
        ('ut2_doc', [['ChangeMeta', 'Doc', 'unique_together',
                      [['title', 'pages'], ['code', 'rank']]]]),
        ('add_quote', [['AddField', 'Doc', 'summary', 'CharField',
                        {'max_length': 50, 'initial': "it's"}]]),
        ('add_percent', [['AddField', 'Doc', 'ratio', 'CharField',
                          {'max_length': 10, 'initial': '50%'}]]),
        ('add_date', [['AddField', 'Doc', 'added', 'DateField',
                       {'initial': ['date', 2020, 1, 2]}]]),
        ('add_bool', [['AddField', 'Doc', 'flag', 'BooleanField',
                       {'initial': True}]]),
        ('add_int_index', [['AddField', 'Doc', 'count', 'IntegerField',
                            {'initial': 7, 'db_index': True}]]),
        ('add_fk', [['AddField', 'Tag', 'doc', 'ForeignKey',
                     {'related_model': 'pva.Doc', 'null': True}]]),
        ('not_null', [['ChangeField', 'Tag', 'weight',
                       {'null': False, 'initial': 0}]]),
        ('rename_field', [['RenameField', 'Tag', 'label', 'name', {}]]),
        ('delete_field', [['DeleteField', 'Doc', 'obsolete']]),
        ('max_length', [['ChangeField', 'Doc', 'title',
                         {'max_length': 40}]]),
        ('add_m2m', [['AddField', 'Tag', 'docs', 'ManyToManyField',
                      {'related_model': 'pva.Doc'}]]),
        ('rename_model', [['RenameModel', 'Misc', 'Various',
                           {'db_table': 'pva_misc'}]]),
        ('delete_model', [['DeleteModel', 'Old']]),
        ('idx2', [['ChangeMeta', 'Tag', 'indexes', [
            {'name': 'tag_idx_a', 'fields': ['weight']},
            {'name': 'tag_idx_b', 'fields': ['weight', 'id']},
            {'name': 'tag_idx_c', 'fields': ['id', 'weight']}]]]),
        ('cons2', [['ChangeMeta', 'Extra', 'constraints', [
            {'type': 'UniqueConstraint', 'name': 'extra_uq_a',
             'fields': ['z']},
            {'type': 'UniqueConstraint', 'name': 'extra_uq_b',
             'fields': ['z', 'id']}]]]),
    ])),
    ('pvb', OrderedDict([
        ('add_plain', [['AddField', 'Memo', 'note', 'CharField',
                        {'max_length': 10, 'initial': 'n'}]]),
        ('ut3', [['ChangeMeta', 'Memo', 'unique_together',
                  [['text', 'prio'], ['text', 'doc'], ['prio', 'doc']]]]),
        ('delete_field', [['DeleteField', 'Memo', 'extra']]),
        ('rename_field', [['RenameField', 'Memo', 'tmp', 'temp', {}]]),
    ])),
])


def _c14_descs(label, atom_names):
    return [desc for name in atom_names for desc in C14_ATOMS[label][name]]


def _c14_expand(scenario):
    """Scenario -> {label: {'start': n, 'evolutions': [(evo label, descs,
    extra attrs)]}} with atoms expanded to mutation descriptions."""
    result = OrderedDict()

    for label, app in scenario['apps'].items():
        evolutions = []

        for item in app['evolutions']:
            evo_label, atom_names = item[0], item[1]
            extra = item[2] if len(item) > 2 else {}
            evolutions.append((evo_label, _c14_descs(label, atom_names),
                               extra))

        result[label] = {'start': app.get('start', 0),
                         'evolutions': evolutions}

    return result


def _c14_install(expanded, upto_final_models=True):
    """Install every app at its start version, then move the code to the
    final version.  Returns the labels."""
    labels = list(expanded)
    start_spec = OrderedDict()
    final_spec = OrderedDict()

    for label, app in expanded.items():
        applied = app['evolutions'][:app['start']]
        start_spec[label] = _upgrade_target(
            C14_MODELS[label], [(e[0], e[1]) for e in applied], label)
        final_spec[label] = _upgrade_target(
            C14_MODELS[label], [(e[0], e[1]) for e in app['evolutions']],
            label)

    maps = build_project(start_spec)

    for label, app in expanded.items():
        applied = app['evolutions'][:app['start']]
        set_evolutions(label, [
            (e[0], [make_mutation(desc) for desc in e[1]])
            for e in applied] if applied else None)

    install_apps(labels)
    evolver_install('default')
    rows = _default_rows(maps)
    H._insert_rows({}, rows, 'default')
    build_project(final_spec)
    install_apps(labels)

    return labels


def _c14_set_pending(expanded, with_pending):
    for label, app in expanded.items():
        evolutions = app['evolutions'] if with_pending else \
            app['evolutions'][:app['start']]

        if not evolutions:
            set_evolutions(label, None)
            continue

        extra = {}

        for evo_label, _descs, attrs in evolutions:
            if attrs:
                extra[evo_label] = dict(
                    (key, [tuple(item) if isinstance(item, list) else item
                           for item in value])
                    for key, value in attrs.items())

        set_evolutions(label, [
            (evo_label, [make_mutation(desc) for desc in descs])
            for evo_label, descs, _attrs in evolutions], extra)


def parse_preview(stdout):
    """Statements of `evolve --sql` output (headers/comments dropped)."""
    return [line for line in stdout.splitlines()
            if line.strip() and not line.startswith('--')]


def sql_literal(value):
    """The SQLite literal for a bound parameter value."""
    import datetime
    import decimal

    if value is None:
        return 'NULL'

    if isinstance(value, bool):
        return '1' if value else '0'

    if isinstance(value, (int, float)):
        return repr(value)

    if isinstance(value, decimal.Decimal):
        return str(value)

    if isinstance(value, bytes):
        return "X'%s'" % value.hex()

    if isinstance(value, (datetime.date, datetime.datetime, datetime.time)):
        value = value.isoformat(' ') if isinstance(
            value, datetime.datetime) else value.isoformat()

    return "'%s'" % str(value).replace("'", "''")


def render_executed(sql, params):
    if params:
        return sql % tuple(sql_literal(param) for param in params)

    return sql


def _lib_render(sql, params):
    from django_evolution.db import EvolutionOperationsMulti

    if not params:
        return sql

    qp = EvolutionOperationsMulti('default').get_evolver().quote_sql_param

    return sql % tuple(qp(param) for param in params)


def _statement_targets(statements):
    import re

    result = []

    for statement in statements:
        match = re.search(r'(?:TABLE|INTO|ON|FROM|INDEX) "([^"]+)"',
                          statement)
        result.append(match.group(1) if match else statement[:30])

    return result


def c14_outputs(scenario, execute=False):
    """Install the scenario and return the command outputs.

    Returns:
        dict: 'sql' (stdout of ``evolve --sql``), 'hint' (stdout of ``evolve
        --hint`` with only the already applied evolutions present),
        'hint_sql' (``evolve --hint --sql``) and, with ``execute=True``,
        'executed' (rendered statements ``evolve --execute`` sent to the
        database, bookkeeping dropped) plus 'errors'.
    """
    psetup()
    expanded = _c14_expand(scenario)
    labels = list(expanded)
    result = {'errors': {}}
    pcleanup(labels)

    try:
        with warnings.catch_warnings():
            warnings.simplefilter('ignore')
            _c14_install(expanded)

            _c14_set_pending(expanded, with_pending=False)

            for key, options in (('hint', {'hint': True}),
                                 ('hint_sql', {'hint': True,
                                               'compile_sql': True})):
                outcome = run_evolve_command(**options)
                result[key] = outcome['stdout']

                if outcome['error']:
                    result['errors'][key] = outcome['error']

            _c14_set_pending(expanded, with_pending=True)
            outcome = run_evolve_command(compile_sql=True)
            result['sql'] = outcome['stdout']

            if outcome['error']:
                result['errors']['sql'] = outcome['error']

            if execute:
                trace = {'default': []}
                outcome = run_evolve_command(execute=True, trace=trace)

                if outcome['error']:
                    result['errors']['execute'] = dict(
                        outcome['error'], stdout=outcome['stdout'][-300:])

                result['executed_raw'] = [
                    (sql, params)
                    for sql, params in trace_writes(trace['default'])
                    if not is_bookkeeping(sql)]
                result['executed'] = [
                    render_executed(sql, params)
                    for sql, params in result['executed_raw']]
    except Exception as e:
        result['errors']['setup'] = _error_info(e, 'setup')
    finally:
        pcleanup(labels)

    return result


def _first_difference(a, b):
    for i, (x, y) in enumerate(zip(a, b)):
        if x != y:
            return {'index': i, 'first': x, 'second': y}

    if len(a) != len(b):
        i = min(len(a), len(b))
        return {'index': i,
                'first': a[i] if i < len(a) else None,
                'second': b[i] if i < len(b) else None,
                'lengths': [len(a), len(b)]}

    return None


def c14_seed_outputs(scenarios, seeds, timeout=1500):
    """Run :func:`c14_outputs` for all scenarios in one fresh interpreter
    per PYTHONHASHSEED value.  Returns {seed: [outputs...]} (or an error
    string per seed)."""
    import tempfile

    tmpdir = tempfile.mkdtemp(prefix='c14_', dir=os.getcwd())
    infile = os.path.join(tmpdir, 'in.json')

    with open(infile, 'w') as fp:
        json.dump(scenarios, fp)

    procs = []

    for seed in seeds:
        workdir = os.path.join(tmpdir, 'seed%s' % seed)
        os.mkdir(workdir)
        env = dict(os.environ)
        env.update({
            'PYTHONHASHSEED': str(seed),
            # inherit the parent's path so that a scratch checkout of the
            # system under test (mutant runs) is used by the workers too
            'PYTHONPATH': os.environ.get('PYTHONPATH') or
            '/repo:/repo/tests:/verif',
            'DJANGO_SETTINGS_MODULE': 'settings',
            'PYTHONDONTWRITEBYTECODE': '1',
        })
        outfile = os.path.join(workdir, 'out.json')
        proc = subprocess.Popen(
            [sys.executable, '-m', 'adapters.suites_refs', 'c14-worker',
             infile, outfile],
            cwd=workdir, env=env, stdout=subprocess.DEVNULL,
            stderr=subprocess.PIPE)
        procs.append((seed, proc, outfile))

    def collect():
        import shutil

        results = {}

        for seed, proc, outfile in procs:
            try:
                _out, err = proc.communicate(timeout=timeout)
            except subprocess.TimeoutExpired:
                proc.kill()
                results[seed] = 'timeout'
                continue

            if proc.returncode != 0 or not os.path.exists(outfile):
                results[seed] = 'worker failed: %s' % (
                    err.decode('utf-8', 'replace')[-500:])
                continue

            with open(outfile) as fp:
                results[seed] = json.load(fp)

        shutil.rmtree(tmpdir, ignore_errors=True)

        return results

    return collect


def _c14_worker(infile, outfile):
    with open(infile) as fp:
        scenarios = json.load(fp, object_pairs_hook=OrderedDict)

    outputs = []

    for scenario in scenarios:
        out = c14_outputs(scenario, execute=False)
        outputs.append({'sql': out.get('sql'), 'hint': out.get('hint'),
                        'hint_sql': out.get('hint_sql'),
                        'errors': out['errors']})

    with open(outfile, 'w') as fp:
        json.dump(outputs, fp)


def _c14_scenarios(tier, seed):
    rng = random.Random(seed)
    scenarios = []

    def one_app(label, evolutions, start=0):
        return {'apps': OrderedDict([(label, {'start': start,
                                              'evolutions': evolutions})])}

    # every atom alone
    for label, atoms in C14_ATOMS.items():
        if label == 'pvb':
            continue

        for name in atoms:
            scenarios.append(one_app(label, [['e1', [name]]]))

    names_a = list(C14_ATOMS['pva'])
    names_b = list(C14_ATOMS['pvb'])

    def random_history(names, steps):
        pool = list(names)
        rng.shuffle(pool)
        evolutions = []

        for i in range(steps):
            size = rng.randint(1, 4)
            chosen, pool = pool[:size], pool[size:]

            if chosen:
                evolutions.append(['e%d' % (i + 1), chosen])

        return evolutions

    count = 8 if tier == 'quick' else 220

    for i in range(count):
        history = random_history(names_a, rng.randint(1, 3))
        start = rng.randint(0, len(history) - 1) if i % 3 == 0 else 0
        scenarios.append(one_app('pva', history, start))

    # two apps, with and without declared evolution dependencies
    count = 6 if tier == 'quick' else 120

    for i in range(count):
        history_a = random_history(names_a, rng.randint(1, 2))
        history_b = random_history(names_b, rng.randint(1, 2))
        variant = i % 3

        if variant == 1:
            # pva's first pending evolution must run after pvb's
            history_a[0] = history_a[0] + [
                {'AFTER_EVOLUTIONS': [['pvb', history_b[0][0]]]}]
        elif variant == 2:
            history_b[0] = history_b[0] + [
                {'AFTER_EVOLUTIONS': [['pva', history_a[-1][0]]]}]

        scenarios.append({'apps': OrderedDict([
            ('pva', {'start': 0, 'evolutions': history_a}),
            ('pvb', {'start': 0, 'evolutions': history_b}),
        ])})

    return scenarios


def suite_C14(tier='quick', seed=0):
    psetup()
    scenarios = _c14_scenarios(tier, seed)
    seeds = [0, 1, 2] if tier == 'quick' else [0, 1, 2, 3, 4, 5, 6, 7]
    t0 = time.time()
    collect = c14_seed_outputs(_json(scenarios), seeds)
    local_outputs = {}

    def describe(scenario):
        return {'scenario': scenario, 'seeds': seeds}

    def runner(scenario):
        index = scenarios.index(scenario)
        out = c14_outputs(scenario, execute=True)
        local_outputs[index] = out
        result = {'error': None, 'failures': [], 'nontrivial': False}

        for key in ('setup', 'sql'):
            if key in out['errors']:
                result['error'] = dict(out['errors'][key],
                                       phase='local-' + key)
                return result

        preview = parse_preview(out['sql'])
        executed = out['executed']
        result['nontrivial'] = bool(preview)

        if 'execute' in out['errors']:
            # The generated SQL failed half way (not this property's
            # business): what WAS sent, including the failing statement,
            # must still be the beginning of the preview.
            result['execution_failed'] = out['errors']['execute']
            preview = preview[:len(executed)]

        # (1) same statements in the same order: the executed statements
        # are rendered the way the preview renders parameters (the
        # library's own quote_sql_param), so only structure/order counts.
        lib_rendered = [_lib_render(sql, params)
                        for sql, params in out['executed_raw']]
        difference = _first_difference(preview, lib_rendered)

        if difference:
            result['failures'].append(('preview-statements-in-order', {
                'index': difference['index'],
                'preview': difference['first'],
                'executed': difference['second'],
                'lengths': [len(preview), len(lib_rendered)],
                'preview_tables': _statement_targets(preview),
                'executed_tables': _statement_targets(lib_rendered)}))
        else:
            # (2) "with parameters substituted": each previewed statement
            # must be the executed statement with its bound parameters
            # written as SQL literals.
            for i, (shown, real) in enumerate(zip(preview, executed)):
                if shown != real:
                    result['failures'].append((
                        'preview-parameters-substituted', {
                            'index': i, 'preview': shown,
                            'executed_with_literals': real,
                            'bound_parameters': [
                                repr(param) for param in
                                out['executed_raw'][i][1] or ()]}))
                    break

        return result

    rule = (
        'Pending upgrades over the fixed models C14_MODELS (apps pva [Doc, '
        'Sheet, Tag, Misc, Old, Extra] and pvb [Memo -> pva.Doc]): histories of 1-3 '
        'evolutions of 1-4 "atoms" each, drawn without replacement from '
        'C14_ATOMS (ChangeMeta unique_together/index_together with 3 '
        'tuples, AddField with quote/percent/date/bool/int initial values, '
        'AddField FK and M2M, ChangeField null->not null and max_length, '
        'RenameField, DeleteField, RenameModel, DeleteModel, ChangeMeta '
        'indexes/constraints), installed at '
        'a start version through the real Evolver and upgraded with the '
        'real `evolve` command. %s For every scenario (a) `evolve --sql` '
        'stdout is compared statement by statement with what `evolve '
        '--execute` sends through connection.execute_wrapper on the same '
        'database (bound parameters rendered as SQLite literals; reads, '
        'savepoints, FK pragmas and version/evolution/contenttype '
        'bookkeeping dropped), and (b) `evolve --sql`, `evolve --hint` and '
        '`evolve --hint --sql` are produced in a fresh interpreter per '
        'PYTHONHASHSEED in %r and must be byte-identical. Non-trivial = '
        'the preview contains at least one statement.'
        % ('quick: every pva atom alone + 8 random one-app histories '
           '(every third from a later start version) + 6 two-app upgrades '
           '(no / forward / backward cross-app evolution dependency).'
           if tier == 'quick' else
           'thorough: every atom alone + 220 random one-app + 120 random '
           'two-app histories.', seeds))

    report = _run_suite('C14', scenarios, runner, describe, tier, False,
                        rule)

    # -- hash seed clause ---------------------------------------------------
    by_seed = collect()
    seed_failures = 0
    report['executions_failed_midway'] = sum(
        1 for out in local_outputs.values()
        if 'execute' in out['errors'])

    for seed_value, outputs in by_seed.items():
        if not isinstance(outputs, list):
            report['skipped']['seed-worker/%s' % seed_value] = str(outputs)

    good = OrderedDict((seed_value, outputs)
                       for seed_value, outputs in by_seed.items()
                       if isinstance(outputs, list))

    for index, scenario in enumerate(scenarios):
        for key in ('sql', 'hint', 'hint_sql'):
            variants = OrderedDict()

            for seed_value, outputs in good.items():
                errors = outputs[index].get('errors') or {}

                if 'setup' in errors or key in errors:
                    continue

                variants.setdefault(outputs[index].get(key), []).append(
                    seed_value)

            if len(variants) > 1:
                texts = list(variants)
                difference = _first_difference(texts[0].splitlines(),
                                               texts[1].splitlines())
                inputs = describe(scenario)
                observed = {
                    'output': key,
                    'seeds_by_variant': list(variants.values()),
                    'first_difference': difference,
                }
                clause = 'hash-seed-deterministic'
                known_id = _is_known('C14', clause, _json(inputs), observed)
                known = bool(known_id)
                name = '%s%s' % (clause, (' | ' + known_id) if known else ' (UNKNOWN)')
                report['failure_counts'][name] = \
                    report['failure_counts'].get(name, 0) + 1
                seed_failures += 1
                listed = sum(1 for item in report['failures']
                             if item['clause'] == clause)

                if len(report['failures']) < 10 and listed < 4:
                    report['failures'].append({
                        'clause': clause, 'inputs': _json(inputs),
                        'observed': _json(observed), 'known': known, 'known_id': known_id})

    report['seed_runs'] = dict((str(seed_value),
                                len(outputs) if isinstance(outputs, list)
                                else outputs)
                               for seed_value, outputs in by_seed.items())
    report['elapsed'] = round(time.time() - t0, 2)

    return report


def replay_C14(inputs):
    scenario = inputs['scenario']
    out = c14_outputs(scenario, execute=True)
    result = {'errors': out['errors']}
    preview = parse_preview(out.get('sql') or '')
    executed = out.get('executed') or []

    if 'execute' in out['errors']:
        preview = preview[:len(executed)]

    difference = _first_difference(preview, executed)
    result['preview_vs_execution'] = difference
    seeds = inputs.get('seeds') or [0, 1, 2]
    by_seed = c14_seed_outputs([_json(scenario)], seeds)()
    variants = {}

    for seed_value, outputs in by_seed.items():
        if isinstance(outputs, list):
            for key in ('sql', 'hint', 'hint_sql'):
                variants.setdefault(key, set()).add(outputs[0].get(key))

    result['seed_variants'] = dict((key, len(value))
                                   for key, value in variants.items())
    result['reproduced'] = bool(difference) or any(
        count > 1 for count in result['seed_variants'].values())

    return result


# ---------------------------------------------------------------------------
# Known findings + CLI
# ---------------------------------------------------------------------------

def _has_step(inputs, kind, attr=None):
    for _label, desc in inputs.get('steps', []):
        if desc[0] == kind:
            if attr is None:
                return True

            if (desc[-1] if isinstance(desc[-1], dict) else {}).get(attr):
                return True

    return False


def _c11_m2m_owner_rename(inputs, observed):
    steps = inputs.get('steps', [])

    if len(steps) != 1 or steps[0][1][0] != 'RenameModel':
        return False

    label, desc = steps[0]
    model = C11_FAMILIES[inputs['family']].get(label, {}).get(desc[1])

    return bool(model) and any(
        info[0] == 'ManyToManyField'
        for info in model['fields'].values())


def _c15_pool_for(inputs):
    return _c15_variant(inputs.get('variant')) or C15_POOL


def _c15_backward_relation(pool, ordered_models):
    """True if, deleting (label, model) entries in the given order, some
    model has a relation to a model deleted before it."""
    gone = set()

    for label, name in ordered_models:
        for info in pool[label][name]['fields'].values():
            kwargs = info[1] if len(info) > 1 else {}
            to = kwargs.get('to')

            if not to or to == 'self':
                continue

            target = tuple(to.split('.')) if '.' in to else (label, to)

            if target in gone:
                return True

        gone.add((label, name))

    return False


def _c15_known_backward(inputs, observed):
    message = (observed or {}).get('message', '')

    if 'Unable to find a model signature' not in message:
        return False

    pool = _c15_pool_for(inputs)

    if inputs['kind'] == 'purge':
        flow = inputs['flow']

        if flow in ('command-purge', 'api-purge'):
            purged = [label for label in inputs['apps']
                      if label in inputs['removed']]
        elif isinstance(flow, (list, tuple)):
            purged = [flow[1]]
        else:
            return False

        order = [(label, name) for label in purged for name in pool[label]]
    elif inputs['kind'] == 'delete':
        if inputs['mutation'][0] != 'DeleteApplication':
            return False

        order = [(inputs['app'], name) for name in pool[inputs['app']]]
    else:
        order = []

        for label in inputs['apps']:
            desc = inputs['deletions'].get(label)

            if desc and desc[0] == 'DeleteApplication':
                order += [(label, name) for name in pool[label]]

    return _c15_backward_relation(pool, order)


def _c15_known_through(inputs, observed):
    if inputs['kind'] != 'delete' or inputs.get('variant') != 'through':
        return False

    if 'no such table' not in (observed or {}).get('message', ''):
        return False

    pool = _c15_pool_for(inputs)
    names = ([inputs['mutation'][1]]
             if inputs['mutation'][0] == 'DeleteModel'
             else list(pool[inputs['app']]))

    return any('through' in (info[1] if len(info) > 1 else {})
               for name in names
               for info in pool[inputs['app']][name]['fields'].values())


def _c16_known_rename_elsewhere(inputs, observed):
    message = ((observed or {}).get('error') or {}).get('message', '')

    if 'could not be found' not in message:
        return False

    database = observed.get('database')
    any_kind = inputs.get('flow') == 'task'

    for _label, descs in inputs['evolutions']:
        for desc in descs:
            if ((desc[0] == 'RenameModel' or any_kind) and
                len(desc) > 1 and
                inputs['routing'].get(desc[1]) not in (None, database) and
                '.%s"' % desc[1] in message):
                return True

    return False


def _c14_atoms(inputs):
    names = set()

    for label, app in inputs['scenario']['apps'].items():
        for item in app['evolutions'][app.get('start', 0):]:
            names.update(item[1])

    return names


def _c14_known_order(inputs, observed):
    apps = inputs['scenario']['apps']
    labels = list(apps)

    for position, label in enumerate(labels):
        for item in apps[label]['evolutions']:
            extra = item[2] if len(item) > 2 else {}

            for dep in extra.get('AFTER_EVOLUTIONS', []):
                if (isinstance(dep, (list, tuple)) and dep[0] in labels and
                    labels.index(dep[0]) > position):
                    return True

    return False


KNOWN = [
    # (C14 hash-seed-deterministic: fixed in /repo - see known_findings.json 'fixed')
    {
        'property': 'C14',
        'clause': 'preview-parameters-substituted',
        'match': 'a statement with a bound string parameter containing a '
                 'single quote, or a bound non-string/non-number parameter '
                 '(date) - atoms add_quote / add_date',
        'predicate': lambda inputs, observed: bool(
            _c14_atoms(inputs) & set(['add_quote', 'add_date'])),
        'what': 'SQLExecutor.run_sql(capture=True) renders parameters with '
                'BaseEvolutionOperations.quote_sql_param, which escapes a '
                'quote as backslash-quote (not SQL) and returns every '
                'non-string value unchanged, so a date is printed bare '
                '(2020-01-02, an arithmetic expression) while execution '
                'binds the real value.',
        'inputs': {'scenario': {'apps': {'pva': {
            'start': 0, 'evolutions': [['e1', ['add_date']]]}}},
            'seeds': [0]},
    },
    {
        'property': 'C14',
        'clause': 'preview-statements-in-order',
        'match': 'two apps with pending evolutions where an evolution of '
                 'the app queued FIRST declares AFTER_EVOLUTIONS on an '
                 'evolution of the app queued later',
        'predicate': _c14_known_order,
        'what': '`evolve --sql` prints task.sql task by task in queue '
                '(INSTALLED_APPS) order, while `evolve --execute` runs the '
                'batches built from the dependency graph, so with a '
                'cross-app evolution dependency the apps\' statements are '
                'executed in the opposite order to the preview.',
        'inputs': {'scenario': {'apps': OrderedDict([
            ('pva', {'start': 0, 'evolutions': [
                ['e1', ['add_bool'],
                 {'AFTER_EVOLUTIONS': [['pvb', 'e1']]}]]}),
            ('pvb', {'start': 0, 'evolutions': [['e1', ['add_plain']]]}),
        ])}, 'seeds': [0]},
    },
    {
        'property': 'C16',
        'clause': 'evolve-succeeds',
        'match': 'the evolutions contain RenameModel(M, ...) - or, with '
                 'caller-supplied evolutions (flow "task"), ANY model '
                 'mutation on M - where the router puts M on the OTHER '
                 'database than the one being evolved; error "The model '
                 'signature for \"app.M\" could not be found."',
        'predicate': _c16_known_rename_elsewhere,
        'what': 'BaseModelMutation.is_mutable() computes `db_name = '
                '(database or get_database_for_model_name(...))` and so '
                'returns True for every model whenever a database name is '
                'passed (the Evolver always passes one); RenameModel is '
                'also exempt from the changed-models filter of '
                'get_app_pending_mutations() (and caller-supplied '
                'evolutions are not filtered at all), so the mutation is '
                'run against the database that does not hold the model and '
                'the whole upgrade of that database fails instead of '
                'skipping it.',
        'inputs': {'models': ['Alpha', 'Beta'],
                   'routing': {'Alpha': 'default', 'Beta': 'db_multi'},
                   'evolutions': [['e1', [
                       ['RenameModel', 'Beta', 'BetaX',
                        {'db_table': 'multi_beta'}]]]],
                   'order': ['default', 'db_multi'], 'flow': 'command'},
    },
    {
        'property': 'C15',
        'clause': 'purge-runs',
        'match': 'flow == command-purge (evolve --execute --purge) with at '
                 'least one stale app that has tables; error is the '
                 '"cannot resolve automatically" CommandError',
        'predicate': lambda inputs, observed: (
            inputs['kind'] == 'purge' and
            inputs['flow'] == 'command-purge' and
            'cannot resolve automatically' in observed.get('message', '')),
        'what': 'DeleteApplication.simulate removes the model signatures '
                'but never the (now empty) AppSignature, and the command '
                'checks Diff.is_empty(ignore_apps=False) when --purge is '
                'given, so the purged app still counts as "deleted" and '
                '`evolve --purge --execute` always aborts before running '
                'any SQL.',
        'inputs': {'kind': 'purge', 'apps': ['shop', 'crm'],
                   'removed': ['crm'], 'flow': 'command-purge'},
    },
    {
        'property': 'C15',
        'clause': 'purge-runs',
        'match': 'purging (or DeleteApplication of) models in signature '
                 'order where a model has a FK/M2M to a model deleted '
                 'before it; error "Unable to find a model signature"',
        'predicate': _c15_known_backward,
        'what': 'DeleteApplication.mutate deletes the models one by one and '
                'each DeleteModel is simulated immediately; building the '
                'MockModel of a later model then fails with '
                'MissingSignatureError because create_field() requires the '
                'signature of the relation target that was just removed.',
        'inputs': {'kind': 'purge', 'apps': ['shop', 'crm', 'crmx'],
                   'removed': ['crm', 'crmx'], 'flow': 'api-purge'},
    },
    {
        'property': 'C15',
        'clause': 'delete-runs',
        'match': 'DeleteApplication of an app in which a model has a '
                 'FK/M2M to a model listed before it in the app signature',
        'predicate': _c15_known_backward,
        'what': 'same root cause as the purge-runs/backward-relation entry '
                '(DeleteApplication.mutate + immediate simulation).',
        'inputs': {'kind': 'delete', 'apps': ['shop', 'shop_item'],
                   'app': 'shop', 'mutation': ['DeleteApplication'],
                   'variant': None},
    },
    {
        'property': 'C15',
        'clause': 'delete-runs',
        'match': 'DeleteModel/DeleteApplication covering a model whose '
                 'ManyToManyField uses an explicit through model',
        'predicate': _c15_known_through,
        'what': 'field signatures do not record `through`, so '
                'DeleteModel.mutate treats the relation as auto-created and '
                'emits DROP TABLE for "<table>_<field>", a table that never '
                'existed; the whole deletion fails with "no such table".',
        'inputs': {'kind': 'delete', 'apps': ['lib', 'libx'], 'app': 'lib',
                   'mutation': ['DeleteModel', 'Book'],
                   'variant': 'through'},
    },
    {
        'property': 'C15',
        'clause': 'sig-entries-removed',
        'match': 'any purge that runs (Evolver.queue_purge_old_apps / '
                 'queue_purge_app): an empty app entry stays behind',
        'predicate': lambda inputs, observed: (
            inputs['kind'] == 'purge' and
            isinstance(observed.get('left_behind'), dict) and
            not observed['left_behind'].get('models')),
        'what': 'DeleteApplication.simulate leaves the emptied AppSignature '
                'in the project signature, so the stored signature keeps an '
                'entry {"models": {}} for the purged app and every later '
                'run reports the app as deleted/purgeable again.',
        'inputs': {'kind': 'purge', 'apps': ['shop', 'crm'],
                   'removed': ['crm'], 'flow': 'api-purge'},
    },
    {
        'property': 'C11',
        'clause': 'ref-exists',
        'match': 'some step is RenameAppLabel(..., model_names=<proper '
                 'subset of the app\'s models>)',
        'predicate': lambda inputs, observed: _has_step(
            inputs, 'RenameAppLabel', 'model_names'),
        'what': 'RenameAppLabel.simulate moves only the models listed in '
                'model_names to the new label but then rewrites EVERY '
                'related_model that starts with the old label, so relations '
                'to models that stayed behind now name "<new>.<Model>", '
                'which does not exist.',
        'inputs': {'family': 'shop', 'mode': 'simulate', 'steps': [
            ['shop', ['RenameAppLabel', 'shop', 'shopy',
                      {'model_names': ['Item']}]]]},
    },
    {
        'property': 'C11',
        'clause': 'rename-accepted',
        'match': 'single RenameModel of a model that owns a '
                 'ManyToManyField (auto-created through table)',
        'predicate': _c11_m2m_owner_rename,
        'what': 'RenameModel.mutate builds a MockModel under the NEW model '
                'name before the signature is renamed; the mock through '
                'model of the model\'s own ManyToManyField then looks up '
                '"<app>.<NewName>" in the signature and raises '
                'MissingSignatureError, so the owning side of a many-to-many '
                'relation cannot be renamed at all.',
        'inputs': {'family': 'shop', 'mode': 'separate', 'steps': [
            ['shop', ['RenameModel', 'Order', 'OrderX',
                      {'db_table': 'shop_orderx'}]]]},
    },
]

for _n, _entry in enumerate(KNOWN):
    # ids are stable names (the first recorded entry, C14 hash-seed-deterministic-0, was repaired in /repo)
    _entry['id'] = '%s-%s-%d' % (_entry['property'], _entry['clause'], _n + 1)


def _main(argv):
    if argv[1] == 'c14-worker':
        _c14_worker(argv[2], argv[3])
        return

    prop = argv[1]
    tier = argv[2] if len(argv) > 2 else 'quick'
    seed = int(argv[3]) if len(argv) > 3 else 0
    result = globals()['suite_%s' % prop](tier, seed)
    print(json.dumps(result, indent=1, default=repr))


if __name__ == '__main__':
    _main(sys.argv)


