"""Self-test for adapters.evo_harness.

Run from an empty scratch directory::

    mkdir -p /var/tmp/harness_scratch && cd /var/tmp/harness_scratch && \\
    PYTHONPATH=/repo:/repo/tests:/verif DJANGO_SETTINGS_MODULE=settings \\
        /verif/.venv/bin/python /verif/adapters/evo_harness_selftest.py

Exercises every public API function on a handful of scenarios, asserts basic
expectations against the current /repo, prints the average time per
``run_mutations`` call and exits 0 on success.
"""

from __future__ import print_function, unicode_literals

import copy
import json
import os
import sys
import time
from collections import OrderedDict

sys.path[:0] = [p for p in ('/verif', '/repo/tests', '/repo')
                if p not in sys.path]
os.environ.setdefault('DJANGO_SETTINGS_MODULE', 'settings')

from adapters import evo_harness as H  # noqa: E402


VERBOSE = '-v' in sys.argv
_checks = [0]


def check(cond, message):
    _checks[0] += 1

    if not cond:
        raise AssertionError(message)


def show(title, result):
    print('--- %s' % title)

    if result.get('error'):
        print('    error: %s' % (result['error'],))

    if 'sql' in result:
        for i, group in enumerate(result['sql']):
            print('    group %d: %d statements' % (i, len(group)))

            if VERBOSE:
                for statement in group:
                    print('        %s' % statement)

        print('    rebuilds: %s' % dict(result['rebuilds']))
        print('    elapsed: %.3fs' % result['elapsed'])

    if VERBOSE and result.get('rows'):
        for table, data in result['rows'].items():
            print('    %s %s' % (table, data['columns']))

            for row in data['rows']:
                print('        %r' % (row,))


def columns_of(schema):
    return dict((table, info['columns']) for table, info in schema.items())


def with_field(spec, model, name, field, after=None):
    """Return a copy of spec with a field added (at the end)."""
    spec = copy.deepcopy(spec)
    spec[model]['fields'][name] = field
    return spec


def without_field(spec, model, name):
    spec = copy.deepcopy(spec)
    del spec[model]['fields'][name]
    return spec


def assert_clean(database='default'):
    """No scratch table, model or transaction may be left behind."""
    from django.db import connections
    from django_evolution.compat.models import all_models

    connection = connections[database]
    check(not H._scratch_tables(connection, database),
          'scratch tables left behind: %r'
          % H._scratch_tables(connection, database))
    check(not all_models['tests'],
          'models left registered: %r' % list(all_models['tests']))
    check(not connection.in_atomic_block, 'transaction left open')
    check(not connection.connection.in_transaction,
          'sqlite transaction left open')

    with connection.cursor() as cursor:
        cursor.execute('PRAGMA foreign_keys')
        check(cursor.fetchone()[0] == 1, 'foreign_keys left OFF')


BASE = OrderedDict([
    ('TestModel', {
        'fields': OrderedDict([
            ('char_field', ('CharField', {'max_length': 20})),
            ('int_field', ('IntegerField', {'null': True})),
            ('bool_field', ('BooleanField', {'default': False})),
        ]),
    }),
])

BASE_ROWS = {
    'TestModel': [
        {'char_field': 'first', 'int_field': 1, 'bool_field': True},
        {'char_field': 'second', 'int_field': None, 'bool_field': False},
        {'char_field': "it's 100%", 'int_field': -5, 'bool_field': True},
    ],
}

BASE_TUPLES = [
    (1, 'first', 1, 1),
    (2, 'second', None, 0),
    (3, "it's 100%", -5, 1),
]


def main():
    t0 = time.time()
    H.setup()
    H.setup()  # idempotent
    print('setup(): %.2fs' % (time.time() - t0))

    # NOTE: django_evolution.mutations can only be imported once Django is
    #       set up, i.e. after H.setup().
    from django.db import models
    from django_evolution.mutations import (AddField, ChangeField,
                                            ChangeMeta, DeleteField,
                                            RenameField, RenameModel)
    assert_clean()

    run_times = []

    def run(*args, **kwargs):
        result = H.run_mutations(*args, **kwargs)
        run_times.append(result['elapsed'])
        assert_clean(kwargs.get('database', 'default'))
        check(not result['hard_reset'], 'unexpected hard reset')
        check(not result['connection_reset'], 'unexpected connection reset')
        json.dumps(H.to_jsonable(result))
        return result

    # -- build_models / sig_of ---------------------------------------------
    model_map = H.build_models(BASE)
    check(list(model_map) == ['TestModel'], 'build_models keys')
    check(model_map['TestModel']._meta.db_table == 'tests_testmodel',
          'db_table')
    check(model_map['TestModel']._meta.app_label == 'tests', 'app_label')
    check([f.name for f in model_map['TestModel']._meta.local_fields] ==
          ['id', 'char_field', 'int_field', 'bool_field'], 'field order')
    H._purge_registry()
    assert_clean()

    base_sig = H.sig_of(BASE)
    check(list(base_sig['TestModel']['fields']) ==
          ['id', 'char_field', 'int_field', 'bool_field'], 'sig_of fields')
    check(base_sig['TestModel']['fields']['char_field'] ==
          {'type': 'django.db.models.CharField',
           'attrs': {'max_length': 20}, 'related_model': None},
          'sig_of char_field: %r'
          % base_sig['TestModel']['fields']['char_field'])
    check(base_sig['TestModel']['meta']['db_table'] == 'tests_testmodel',
          'sig_of meta')
    assert_clean()

    # -- 1. AddField with initial, rows incl. NULLs ------------------------
    target = with_field(BASE, 'TestModel', 'added_field',
                        ('IntegerField', {}))
    r = run(BASE,
            [[AddField('TestModel', 'added_field', models.IntegerField,
                       initial=42)]],
            rows=BASE_ROWS, end_spec=target)
    show('AddField(initial=42)', r)
    check(r['error'] is None, 'AddField error: %r' % (r['error'],))
    check(r['start_schema']['tests_testmodel']['columns'] ==
          [('id', 'INTEGER', 1, 1), ('char_field', 'varchar(20)', 1, 0),
           ('int_field', 'INTEGER', 0, 0), ('bool_field', 'bool', 1, 0)],
          'start columns %r' % r['start_schema']['tests_testmodel'])
    check(r['rows']['tests_testmodel']['rows'] ==
          [row + (42,) for row in BASE_TUPLES],
          'AddField rows: %r' % r['rows'])
    check(r['rows']['tests_testmodel']['columns'] ==
          ['id', 'char_field', 'int_field', 'bool_field', 'added_field'],
          'AddField row columns')
    check(r['rebuilds'] == {'tests_testmodel': 1}, 'AddField rebuilds')
    check(r['sig_matches_end'] is True, 'AddField sig != end sig')
    check(r['final_sig'] == H.sig_of(target), 'AddField final_sig != sig_of')
    check(r['final_sig'] == r['end_sig'], 'final_sig != end_sig')
    check(r['start_sig'] == base_sig, 'start_sig != sig_of(BASE)')
    fresh = H.fresh_schema(target)
    assert_clean()
    check(columns_of(fresh) == columns_of(r['schema']),
          'AddField: evolved columns != fresh columns\n%r\n%r'
          % (columns_of(fresh), columns_of(r['schema'])))
    check(r['fk_check'] == [] and r['integrity_check'] == ['ok'],
          'AddField integrity')

    # AddField null=True without initial -> NULLs.
    r = run(BASE,
            [[AddField('TestModel', 'added_field', models.CharField,
                       max_length=10, null=True)]],
            rows=BASE_ROWS)
    show('AddField(null=True)', r)
    check(r['error'] is None, 'AddField null error')
    check(r['rows']['tests_testmodel']['rows'] ==
          [row + (None,) for row in BASE_TUPLES], 'AddField null rows')

    # -- 2. ChangeField null=False with initial ----------------------------
    target = copy.deepcopy(BASE)
    target['TestModel']['fields']['int_field'] = ('IntegerField', {})
    r = run(BASE,
            [[ChangeField('TestModel', 'int_field', null=False, initial=7)]],
            rows=BASE_ROWS, end_spec=target)
    show('ChangeField(null=False, initial=7)', r)
    check(r['error'] is None, 'ChangeField error: %r' % (r['error'],))
    check(r['rows']['tests_testmodel']['rows'] ==
          [(1, 'first', 1, 1), (2, 'second', 7, 0), (3, "it's 100%", -5, 1)],
          'ChangeField rows: %r' % r['rows'])
    check(r['sig_matches_end'] is True, 'ChangeField sig')
    check(columns_of(H.fresh_schema(target)) == columns_of(r['schema']),
          'ChangeField columns: %r' % columns_of(r['schema']))
    check(dict(r['schema']['tests_testmodel']['columns'][2:3] and
               [(r['schema']['tests_testmodel']['columns'][2][0],
                 r['schema']['tests_testmodel']['columns'][2][2])]) ==
          {'int_field': 1}, 'int_field must be NOT NULL now')

    # -- 3. DeleteField ----------------------------------------------------
    target = without_field(BASE, 'TestModel', 'int_field')
    r = run(BASE, [[DeleteField('TestModel', 'int_field')]],
            rows=BASE_ROWS, end_spec=target)
    show('DeleteField', r)
    check(r['error'] is None, 'DeleteField error: %r' % (r['error'],))
    check(r['rows']['tests_testmodel'] ==
          {'columns': ['id', 'char_field', 'bool_field'],
           'rows': [(row[0], row[1], row[3]) for row in BASE_TUPLES]},
          'DeleteField rows: %r' % r['rows'])
    check(r['sig_matches_end'] is True, 'DeleteField sig')
    check(columns_of(H.fresh_schema(target)) == columns_of(r['schema']),
          'DeleteField columns')

    # -- 4. RenameField ----------------------------------------------------
    target = OrderedDict([
        ('TestModel', {
            'fields': OrderedDict([
                ('char_field', ('CharField', {'max_length': 20})),
                ('renamed_field', ('IntegerField', {'null': True})),
                ('bool_field', ('BooleanField', {'default': False})),
            ]),
        }),
    ])
    r = run(BASE, [[RenameField('TestModel', 'int_field', 'renamed_field')]],
            rows=BASE_ROWS, end_spec=target)
    show('RenameField', r)
    check(r['error'] is None, 'RenameField error: %r' % (r['error'],))
    check(r['rows']['tests_testmodel'] ==
          {'columns': ['id', 'char_field', 'renamed_field', 'bool_field'],
           'rows': BASE_TUPLES}, 'RenameField rows: %r' % r['rows'])
    check(r['sig_matches_end'] is True, 'RenameField sig')
    check(columns_of(H.fresh_schema(target)) == columns_of(r['schema']),
          'RenameField columns')

    # -- 5. RenameModel with a ForeignKey pointing at it -------------------
    start = OrderedDict([
        ('TestModel', BASE['TestModel']),
        ('RefModel', {
            'fields': OrderedDict([
                ('label', ('CharField', {'max_length': 10})),
                ('my_ref', ('ForeignKey', {'to': 'TestModel'})),
            ]),
        }),
    ])
    target = OrderedDict([
        ('DestModel', BASE['TestModel']),
        ('RefModel', {
            'fields': OrderedDict([
                ('label', ('CharField', {'max_length': 10})),
                ('my_ref', ('ForeignKey', {'to': 'DestModel'})),
            ]),
        }),
    ])
    rows = OrderedDict([
        ('TestModel', BASE_ROWS['TestModel']),
        ('RefModel', [
            {'label': 'r1', 'my_ref': 1},
            {'label': 'r2', 'my_ref_id': 3},
        ]),
    ])
    r = run(start,
            [[RenameModel('TestModel', 'DestModel',
                          db_table='tests_destmodel')]],
            rows=rows, end_spec=target)
    show('RenameModel (FK target)', r)
    check(r['error'] is None, 'RenameModel error: %r' % (r['error'],))
    check(r['start_schema']['tests_refmodel']['foreign_keys'] ==
          [('tests_testmodel', 'my_ref_id', 'id')], 'start FK')
    check(sorted(r['schema']) == ['tests_destmodel', 'tests_refmodel'],
          'RenameModel tables: %r' % sorted(r['schema']))
    check(r['schema']['tests_refmodel']['foreign_keys'] ==
          [('tests_destmodel', 'my_ref_id', 'id')],
          'RenameModel FK: %r' % r['schema']['tests_refmodel'])
    check(r['rows']['tests_destmodel']['rows'] == BASE_TUPLES,
          'RenameModel rows')
    check(r['rows']['tests_refmodel']['rows'] ==
          [(1, 'r1', 1), (2, 'r2', 3)], 'RenameModel ref rows')
    check(r['fk_check'] == [], 'RenameModel fk_check: %r' % r['fk_check'])
    check(r['final_sig']['RefModel']['fields']['my_ref']['related_model'] ==
          'tests.DestModel', 'RenameModel related_model')
    check(r['sig_matches_end'] is True, 'RenameModel sig')
    fresh = H.fresh_schema(target)
    check(columns_of(fresh) == columns_of(r['schema']),
          'RenameModel columns')
    check(fresh['tests_refmodel']['foreign_keys'] ==
          r['schema']['tests_refmodel']['foreign_keys'], 'fresh FK')
    check(fresh['tests_refmodel']['indexes'] ==
          r['schema']['tests_refmodel']['indexes'] ==
          [(0, ('my_ref_id',))], 'FK index: %r'
          % r['schema']['tests_refmodel']['indexes'])

    # Dangling reference on purpose -> reported by fk_check, not an error.
    r = run(start, [], rows={'RefModel': [{'label': 'x', 'my_ref': 99}]})
    check(r['error'] is None, 'dangling insert error %r' % (r['error'],))
    check(len(r['fk_check']) == 1 and
          r['fk_check'][0][0] == 'tests_refmodel',
          'fk_check: %r' % r['fk_check'])

    # -- 6. ChangeMeta unique_together -------------------------------------
    target = copy.deepcopy(BASE)
    target['TestModel']['meta'] = {
        'unique_together': [('char_field', 'int_field')],
    }
    r = run(BASE,
            [[ChangeMeta('TestModel', 'unique_together',
                         [('char_field', 'int_field')])]],
            rows=BASE_ROWS, end_spec=target)
    show('ChangeMeta(unique_together)', r)
    check(r['error'] is None, 'ChangeMeta error: %r' % (r['error'],))
    check(r['schema']['tests_testmodel']['indexes'] ==
          [(1, ('char_field', 'int_field'))],
          'ChangeMeta indexes: %r' % r['schema']['tests_testmodel'])
    check(r['rows']['tests_testmodel']['rows'] == BASE_TUPLES,
          'ChangeMeta rows')
    check(r['sig_matches_end'] is True, 'ChangeMeta sig')
    check(r['final_sig']['TestModel']['meta']['unique_together'] ==
          [['char_field', 'int_field']], 'ChangeMeta sig meta: %r'
          % r['final_sig']['TestModel']['meta'])
    fresh = H.fresh_schema(target)
    check(fresh['tests_testmodel']['indexes'] ==
          r['schema']['tests_testmodel']['indexes'],
          'ChangeMeta: fresh indexes %r'
          % fresh['tests_testmodel']['indexes'])
    check(columns_of(fresh) == columns_of(r['schema']), 'ChangeMeta columns')

    # ... and back again (start from the unique_together model).
    r = run(target, [[ChangeMeta('TestModel', 'unique_together', [])]],
            rows=BASE_ROWS, end_spec=BASE)
    show('ChangeMeta(unique_together=[])', r)
    check(r['error'] is None, 'ChangeMeta remove error: %r' % (r['error'],))
    check(r['start_schema']['tests_testmodel']['indexes'] ==
          [(1, ('char_field', 'int_field'))], 'start unique index')
    check(r['schema']['tests_testmodel']['indexes'] == [],
          'ChangeMeta remove indexes: %r' % r['schema']['tests_testmodel'])
    check(r['sig_matches_end'] is True, 'ChangeMeta remove sig')

    # -- 7. batch vs. one-at-a-time ----------------------------------------
    def batch_mutations():
        return [
            AddField('TestModel', 'added_field', models.CharField,
                     max_length=5, initial='x'),
            DeleteField('TestModel', 'int_field'),
        ]

    target = with_field(without_field(BASE, 'TestModel', 'int_field'),
                        'TestModel', 'added_field',
                        ('CharField', {'max_length': 5}))
    batched = run(BASE, [batch_mutations()], rows=BASE_ROWS,
                  end_spec=target)
    show('[AddField, DeleteField] batched', batched)
    single = run(BASE, [[m] for m in batch_mutations()], rows=BASE_ROWS,
                 end_spec=target)
    show('[AddField], [DeleteField] one at a time', single)
    check(batched['error'] is None and single['error'] is None,
          'batch errors: %r %r' % (batched['error'], single['error']))
    check(batched['rebuilds'] == {'tests_testmodel': 1},
          'batched rebuilds: %r' % batched['rebuilds'])
    check(single['rebuilds'] == {'tests_testmodel': 2},
          'single rebuilds: %r' % single['rebuilds'])
    check(len(batched['sql']) == 1 and len(single['sql']) == 2,
          'sql group counts')
    check(single['rebuilds_per_group'] ==
          [{'tests_testmodel': 1}, {'tests_testmodel': 1}],
          'rebuilds_per_group')
    check(columns_of(batched['schema']) == columns_of(single['schema']) ==
          columns_of(H.fresh_schema(target)), 'batch columns')
    check(batched['rows'] == single['rows'], 'batch rows differ')
    check(batched['rows']['tests_testmodel']['rows'] ==
          [(row[0], row[1], row[3], 'x') for row in BASE_TUPLES],
          'batch rows: %r' % batched['rows'])
    check(batched['final_sig'] == single['final_sig'] == H.sig_of(target),
          'batch sigs')
    check(batched['sig_matches_end'] and single['sig_matches_end'],
          'batch sig_matches_end')

    # -- simulate_only -----------------------------------------------------
    s = H.simulate_only(BASE, batch_mutations())
    assert_clean()
    check(s['error'] is None, 'simulate_only error: %r' % (s['error'],))
    check(s['final_sig'] == H.sig_of(target), 'simulate_only final_sig')
    check(s['start_sig'] == base_sig, 'simulate_only start_sig')

    s = H.simulate_only(BASE, [DeleteField('TestModel', 'int_field'),
                               DeleteField('TestModel', 'nope')])
    assert_clean()
    check(s['error'] is not None and
          s['error']['class'] == 'SimulationFailure' and
          s['error']['phase'] == 'simulate' and s['error']['index'] == 1,
          'simulate_only failure: %r' % (s['error'],))
    check('int_field' not in s['final_sig']['TestModel']['fields'],
          'simulate_only partial sig')
    print('--- simulate_only failure: %s' % s['error']['repr'])

    # -- error reporting in run_mutations ----------------------------------
    r = run(BASE, [[DeleteField('TestModel', 'nope')]], rows=BASE_ROWS)
    show('DeleteField(nonexistent)', r)
    # NOTE: on the current /repo the AppMutator path reports an
    #       AttributeError here (ModelMutator runs mutation.mutate() before
    #       the simulation), while simulate_only() gets a SimulationFailure.
    #       Only the phase is asserted.
    check(r['error'] and r['error']['phase'] == 'simulate' and
          r['error']['class'] in ('SimulationFailure', 'AttributeError') and
          r['error']['group'] == 0, 'simulate error: %r' % (r['error'],))
    check(r['rows']['tests_testmodel']['rows'] == BASE_TUPLES,
          'rows untouched after simulate error')

    # Execute-phase failure: the new unique index cannot be created because
    # the existing rows violate it.  Nothing may be left half-done.
    dup_rows = {'TestModel': [
        {'char_field': 'same', 'int_field': 1, 'bool_field': True},
        {'char_field': 'same', 'int_field': 1, 'bool_field': False},
    ]}
    r = run(BASE,
            [[AddField('TestModel', 'added_field', models.IntegerField,
                       initial=1)],
             [ChangeMeta('TestModel', 'unique_together',
                         [('char_field', 'int_field')])],
             [DeleteField('TestModel', 'bool_field')]],
            rows=dup_rows)
    show('ChangeMeta(unique_together) on duplicate rows', r)
    check(r['error'] and r['error']['phase'] == 'execute' and
          r['error']['group'] == 1 and
          r['error']['class'] == 'IntegrityError',
          'execute error: %r' % (r['error'],))
    check('failed_statement' in r['error'] and
          'UNIQUE' in r['error']['failed_statement'].upper(),
          'failed_statement: %r' % (r['error'],))
    check(len(r['sql']) == 2, 'groups after error must be skipped')
    check([c[0] for c in r['schema']['tests_testmodel']['columns']] ==
          ['id', 'char_field', 'int_field', 'bool_field', 'added_field'],
          'schema after execute error: %r' % columns_of(r['schema']))
    check(len(r['rows']['tests_testmodel']['rows']) == 2,
          'rows after execute error')
    check('TEMP_TABLE' not in r['schema'], 'TEMP_TABLE left behind')

    # A failing SQLMutation is rolled back as a whole.
    from django_evolution.mutations import SQLMutation

    r = run(BASE,
            [[SQLMutation('broken', ['CREATE TABLE "zz_made" ("a" integer);',
                                     'INSERT INTO "zz_nope" VALUES (1);'])]],
            rows=BASE_ROWS)
    show('SQLMutation failing on 2nd statement', r)
    check(r['error'] and r['error']['phase'] == 'execute' and
          r['error']['class'] == 'OperationalError', 'SQLMutation error')
    check(r['sql'] == [['CREATE TABLE "zz_made" ("a" integer);',
                        'INSERT INTO "zz_nope" VALUES (1);']],
          'executed sql record: %r' % r['sql'])
    check(sorted(r['schema']) == ['tests_testmodel'],
          'failed SQLMutation must be rolled back: %r' % sorted(r['schema']))

    # A transaction leaked by somebody else is force-closed and reported.
    from django.db import transaction

    leaked = transaction.atomic()
    leaked.__enter__()
    r = H.run_mutations(BASE, [[DeleteField('TestModel', 'int_field')]],
                        rows=BASE_ROWS)
    check(r['error'] is None and r['connection_reset'] is True,
          'leaked transaction: %r %r' % (r['error'], r['connection_reset']))
    check(len(r['rows']['tests_testmodel']['rows']) == 3, 'leak rows')
    assert_clean()
    r = run(BASE, [[DeleteField('TestModel', 'int_field')]], rows=BASE_ROWS)
    check(r['error'] is None, 'run after leaked transaction')

    # Setup-phase failure: bad spec.
    r = run({'TestModel': {'fields': {'x': ('NoSuchField', {})}}}, [])
    check(r['error'] and r['error']['phase'] == 'setup',
          'setup error: %r' % (r['error'],))
    r = run({'A': {'fields': {'x': ('ForeignKey', {'to': 'Missing'})}}}, [])
    check(r['error'] and r['error']['phase'] == 'setup',
          'setup error 2: %r' % (r['error'],))

    # -- misc: m2m, meta options, second database --------------------------
    m2m_spec = OrderedDict([
        ('Tag', {'fields': {'name': ('CharField', {'max_length': 10,
                                                   'unique': True})}}),
        ('TestModel', {
            'fields': OrderedDict([
                ('char_field', ('CharField', {'max_length': 20,
                                              'db_index': True})),
                ('tags', ('ManyToManyField', {'to': 'Tag'})),
                ('parent', ('ForeignKey', {'to': 'self', 'null': True,
                                           'on_delete': 'SET_NULL'})),
            ]),
            'meta': {
                'db_table': 'custom_table',
                'indexes': [{'fields': ['char_field', 'parent'],
                             'name': 'my_idx'}],
                'constraints': [{'type': 'UniqueConstraint',
                                 'fields': ['char_field'],
                                 'name': 'my_uniq'}],
            },
        }),
    ])
    fresh = H.fresh_schema(m2m_spec, database='db_multi')
    assert_clean('db_multi')
    check(sorted(fresh) == ['custom_table', 'custom_table_tags',
                            'tests_tag'], 'm2m tables: %r' % sorted(fresh))
    check(('my_idx', 0, ('char_field', 'parent_id')) in
          fresh['custom_table']['named_indexes'],
          'named index: %r' % fresh['custom_table']['named_indexes'])
    check((1, ('char_field',)) in fresh['custom_table']['indexes'],
          'unique constraint index')
    check((1, ('name',)) in fresh['tests_tag']['indexes'], 'unique field')
    check(fresh['custom_table']['foreign_keys'] ==
          [('custom_table', 'parent_id', 'id')], 'self FK')

    r = run(m2m_spec,
            [[AddField('TestModel', 'added_field', models.IntegerField,
                       null=True)]],
            rows=OrderedDict([
                ('Tag', [{'name': 't1'}]),
                ('TestModel', [{'char_field': 'a', 'parent': None}]),
                ('custom_table_tags', [{'testmodel_id': 1, 'tag_id': 1}]),
            ]),
            database='db_multi')
    show('m2m model AddField on db_multi', r)
    check(r['error'] is None, 'm2m error: %r' % (r['error'],))
    check(r['rows']['custom_table_tags']['rows'] == [(1, 1, 1)], 'm2m rows')
    check(r['rows']['custom_table']['rows'] == [(1, 'a', None, None)],
          'm2m model rows: %r' % r['rows']['custom_table'])
    check(r['fk_check'] == [], 'm2m fk_check')

    # -- cached DatabaseState scan == real scan ----------------------------
    H.build_models(m2m_spec)
    H._create_tables('default')
    fast = H.scan_database_state('default', fast=True)
    slow = H.scan_database_state('default', fast=False)
    check(fast._tables == slow._tables and
          'custom_table' in fast._tables,
          'fast DatabaseState scan differs from DatabaseState(scan=True)')
    H._cleanup('default')
    assert_clean()

    # -- timing --------------------------------------------------------------
    n = 50
    t0 = time.time()

    for i in range(n):
        r = H.run_mutations(
            BASE,
            [[AddField('TestModel', 'added_field', models.IntegerField,
                       initial=i)],
             [DeleteField('TestModel', 'int_field')]],
            rows=BASE_ROWS)
        assert r['error'] is None

    loop_avg = (time.time() - t0) / n
    assert_clean()

    print()
    print('checks passed: %d' % _checks[0])
    print('run_mutations calls in scenarios: %d, average %.4fs'
          % (len(run_times), sum(run_times) / len(run_times)))
    print('timing loop (2 groups, 3 rows, %d calls): average %.4fs per '
          'run_mutations call' % (n, loop_avg))
    check(loop_avg < 0.5, 'run_mutations is too slow: %.3fs' % loop_avg)

    # -- teardown / re-setup -------------------------------------------------
    H.teardown()
    H.teardown()  # idempotent
    t0 = time.time()
    r = H.run_mutations(BASE, [[DeleteField('TestModel', 'int_field')]],
                        rows=BASE_ROWS)
    check(r['error'] is None, 'run after re-setup: %r' % (r['error'],))
    print('teardown() + lazy re-setup + run: %.2fs' % (time.time() - t0))
    H.teardown()

    leftovers = [name for name in os.listdir('.')
                 if name.endswith('.db')]
    print('database files left in cwd: %r' % leftovers)
    print('OK')

    return 0


if __name__ == '__main__':
    sys.exit(main())
