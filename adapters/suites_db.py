"""Bounded native suites for the database-facing properties C01, C02, C03, C18.

Run from an empty scratch cwd with::

    PYTHONPATH=/repo:/repo/tests:/verif DJANGO_SETTINGS_MODULE=settings \\
    PYTHONDONTWRITEBYTECODE=1 /verif/.venv/bin/python -c \\
        "from adapters import suites_db as S; print(S.suite_C02('quick'))"

Every suite ``suite_<ID>(tier='quick', seed=0)`` enumerates a stated finite
scope of *plain data* scenarios, runs each through the REAL django-evolution
code with ``adapters.evo_harness`` (real ``AppMutator`` / SQLite evolver /
``SQLExecutor`` / ``Evolver`` + ``EvolveAppTask`` against a real scratch
SQLite database) and evaluates the property's clauses.  ``replay_<ID>(inputs)``
re-runs ONE scenario taken from a failure's ``inputs``.

Scenario format (all JSON-able)::

    {'spec': <model spec, see evo_harness; field = [type_name, kwargs]>,
     'rows': {model_name: [{field: value}, ...]},
     'muts': [<mutation description>, ...],
     ... suite specific keys ...}

Mutation descriptions::

    ['AddField', model, field, 'IntegerField', {'initial': 7, 'null': False}]
    ['ChangeField', model, field, {'null': False, 'initial': 5,
                                   'field_type': 'CharField'}]
    ['DeleteField', model, field]
    ['RenameField', model, old, new, {'db_column': ..., 'db_table': ...}]
    ['ChangeMeta', model, prop, value]
    ['RenameModel', old, new, db_table]
    ['DeleteModel', model]
    ['DeleteApplication']
    ['SQLMutation', tag, [sql, ...], 'sim' | 'nosim']

Special encoded values inside kwargs / meta values: ``{'__Q__': {lookup:
value}}`` (a ``django.db.models.Q``), ``{'__cls__': 'UniqueConstraint'}`` (a
class of ``django.db.models``), ``{'__callable__': '<sql text>'}`` (a callable
initial value returning that SQL text).

Multiprocessing: the suites call ``evo_harness.setup()`` in the parent and
then fork up to 8 workers (the test databases are in-memory SQLite
databases, so every forked child owns a private copy).
"""

from __future__ import print_function, unicode_literals

import copy
import itertools
import json
import multiprocessing
import os
import random
import re
import sys
import time
import traceback
import warnings
from collections import OrderedDict

from adapters import evo_harness as H


MAX_WORKERS = 8
MAX_FAILURES = 10

_last_project_sig = [None]
_orig_project_sig_fn = [None]


# ---------------------------------------------------------------------------
# Harness glue
# ---------------------------------------------------------------------------

def _setup():
    """Set up the harness and hook the project-signature factory.

    ``evo_harness.run_mutations`` does not return the live
    ``ProjectSignature`` it evolved; the hook remembers the most recently
    created one (the start signature object, which the ``AppMutator``
    evolves in place).
    """
    H.setup()

    import logging
    logging.disable(logging.CRITICAL)

    if _orig_project_sig_fn[0] is None:
        _orig_project_sig_fn[0] = H._project_sig

        def _recording_project_sig(model_map):
            sig = _orig_project_sig_fn[0](model_map)
            _last_project_sig[0] = sig
            return sig

        H._project_sig = _recording_project_sig


def _models():
    from django.db import models
    return models


def _dec(value):
    """Decode the special encoded values (Q, class, callable)."""
    models = _models()

    if isinstance(value, dict):
        if len(value) == 1 and '__Q__' in value:
            return models.Q(**dict((str(k), _dec(v))
                                   for k, v in value['__Q__'].items()))

        if len(value) == 1 and '__cls__' in value:
            return getattr(models, value['__cls__'])

        if '__callable__' in value:
            text = value['__callable__']
            return lambda: text

        return OrderedDict((k, _dec(v)) for k, v in value.items())

    if isinstance(value, (list, tuple)):
        return [_dec(item) for item in value]

    return value


def _enc(value):
    """Inverse of :func:`_dec` for values found in real mutation objects."""
    models = _models()

    if isinstance(value, models.Q):
        if value.connector == 'AND' and not value.negated and all(
                isinstance(child, tuple) for child in value.children):
            return {'__Q__': dict((k, _enc(v)) for k, v in value.children)}

        return {'__repr__': repr(value)}

    if isinstance(value, type):
        return {'__cls__': value.__name__}

    if isinstance(value, dict):
        return OrderedDict((k, _enc(v)) for k, v in value.items())

    if isinstance(value, (list, tuple)):
        return [_enc(item) for item in value]

    if value is None or isinstance(value, (bool, int, float, str)):
        return value

    if callable(value):
        return {'__repr__': repr(value)}

    return {'__repr__': repr(value)}


def dec_spec(spec):
    """Turn a JSON-able spec into what ``evo_harness.build_models`` takes."""
    result = OrderedDict()

    for model_name, model_spec in spec.items():
        fields = OrderedDict()

        for field_name, info in (model_spec.get('fields') or {}).items():
            fields[field_name] = (info[0], _dec(dict(info[1])))

        meta = OrderedDict()

        for key, value in (model_spec.get('meta') or {}).items():
            value = _dec(value)

            if key in ('unique_together', 'index_together'):
                value = [tuple(item) for item in value]
            elif key == 'constraints':
                fixed = []

                for item in value:
                    item = dict(item)

                    if isinstance(item.get('type'), type):
                        item['type'] = item['type'].__name__

                    fixed.append(item)

                value = fixed

            meta[key] = value

        result[model_name] = {'fields': fields, 'meta': meta}

    return result


def _noop_update(simulation):
    pass


def mk(desc):
    """Build a real mutation object from a plain description."""
    _setup()

    models = _models()
    from django_evolution import mutations as M

    kind = desc[0]

    if kind == 'AddField':
        kwargs = dict((str(k), _dec(v)) for k, v in (desc[4] or {}).items())
        return M.AddField(desc[1], desc[2], getattr(models, desc[3]),
                          **kwargs)

    if kind == 'ChangeField':
        kwargs = dict((str(k), _dec(v)) for k, v in (desc[3] or {}).items())

        if isinstance(kwargs.get('field_type'), str):
            kwargs['field_type'] = getattr(models, kwargs['field_type'])

        return M.ChangeField(desc[1], desc[2], **kwargs)

    if kind == 'DeleteField':
        return M.DeleteField(desc[1], desc[2])

    if kind == 'RenameField':
        kwargs = dict((str(k), v)
                      for k, v in (desc[4] if len(desc) > 4 and desc[4]
                                   else {}).items())
        return M.RenameField(desc[1], desc[2], desc[3], **kwargs)

    if kind == 'ChangeMeta':
        value = _dec(desc[3])

        if desc[2] in ('unique_together', 'index_together'):
            value = [tuple(item) for item in value]
        elif desc[2] == 'indexes':
            value = [dict(item) for item in value]
        elif desc[2] == 'constraints':
            # Constraint.deconstruct() (what signatures and hinted
            # evolutions hold) has 'fields' as a tuple.
            value = [dict(item) for item in value]

            for item in value:
                if isinstance(item.get('fields'), list):
                    item['fields'] = tuple(item['fields'])

        return M.ChangeMeta(desc[1], desc[2], value)

    if kind == 'RenameModel':
        return M.RenameModel(desc[1], desc[2], db_table=desc[3])

    if kind == 'DeleteModel':
        return M.DeleteModel(desc[1])

    if kind == 'DeleteApplication':
        return M.DeleteApplication()

    if kind == 'SQLMutation':
        mode = desc[3] if len(desc) > 3 else 'sim'
        return M.SQLMutation(desc[1], list(desc[2]),
                             update_func=(_noop_update if mode == 'sim'
                                          else None))

    raise ValueError('Unknown mutation description %r' % (desc,))


def mks(descs):
    return [mk(desc) for desc in descs]


def desc_of(mutation):
    """Describe a real mutation object as plain data (for hinted ones)."""
    from django_evolution import mutations as M

    if isinstance(mutation, M.AddField):
        kwargs = OrderedDict(sorted(
            (k, _enc(v)) for k, v in mutation.field_attrs.items()))

        if mutation.initial is not None:
            kwargs['initial'] = _enc(mutation.initial)

        return ['AddField', mutation.model_name, mutation.field_name,
                mutation.field_type.__name__, kwargs]

    if isinstance(mutation, M.ChangeField):
        kwargs = OrderedDict(sorted(
            (k, _enc(v)) for k, v in mutation.field_attrs.items()))

        if mutation.field_type is not None:
            kwargs['field_type'] = mutation.field_type.__name__

        if mutation.initial is not None:
            kwargs['initial'] = _enc(mutation.initial)

        return ['ChangeField', mutation.model_name, mutation.field_name,
                kwargs]

    if isinstance(mutation, M.DeleteField):
        return ['DeleteField', mutation.model_name, mutation.field_name]

    if isinstance(mutation, M.RenameField):
        kwargs = {}

        if mutation.db_column:
            kwargs['db_column'] = mutation.db_column

        if mutation.db_table:
            kwargs['db_table'] = mutation.db_table

        return ['RenameField', mutation.model_name, mutation.old_field_name,
                mutation.new_field_name, kwargs]

    if isinstance(mutation, M.ChangeMeta):
        return ['ChangeMeta', mutation.model_name, mutation.prop_name,
                _enc(mutation.new_value)]

    if isinstance(mutation, M.RenameModel):
        return ['RenameModel', mutation.old_model_name,
                mutation.new_model_name, mutation.db_table]

    if isinstance(mutation, M.DeleteModel):
        return ['DeleteModel', mutation.model_name]

    if isinstance(mutation, M.DeleteApplication):
        return ['DeleteApplication']

    if isinstance(mutation, M.SQLMutation):
        return ['SQLMutation', mutation.tag, list(mutation.sql),
                'sim' if mutation.update_func else 'nosim']

    return ['<%s>' % type(mutation).__name__, repr(mutation)]


def mutation_fingerprint(mutation):
    """Everything that defines a mutation, as comparable plain data."""
    data = {}

    for key, value in sorted(vars(mutation).items()):
        if key == 'update_func':
            continue

        data[key] = H._plain(copy.deepcopy(value)) if not callable(value) \
            else repr(value)

    return (type(mutation).__name__, json.dumps(data, sort_keys=True,
                                                default=repr))


#: Exceptions that mean "the library rejected the input" (legitimately).
def _is_rejection(error):
    if error is None:
        return False

    return error['class'] in (
        'SimulationFailure', 'EvolutionNotImplementedError',
        'CannotSimulate', 'EvolutionBaselineMissingError',
        'EvolutionException', 'MissingSignatureError',
        'InvalidSignatureVersion',
    )


def run(spec, groups, rows=None, end_spec=None, database='default'):
    """``evo_harness.run_mutations`` for described or real mutations.

    Returns the harness result with an extra ``'project_sig'`` (the live
    evolved ``ProjectSignature`` object or ``None``).
    """
    _setup()

    real_groups = []

    for group in groups:
        real_groups.append([
            mk(item) if isinstance(item, (list, tuple)) else item
            for item in group
        ])

    _last_project_sig[0] = None
    result = H.run_mutations(dec_spec(spec), real_groups,
                             rows=_dec_rows(rows), database=database,
                             end_spec=(dec_spec(end_spec)
                                       if end_spec is not None else None))
    result['project_sig'] = _last_project_sig[0]

    return result


def _dec_rows(rows):
    if not rows:
        return rows

    return OrderedDict((name, [OrderedDict(row) for row in table_rows])
                       for name, table_rows in rows.items())


def sim_valid(spec, descs):
    """Is the sequence valid when simulated one mutation at a time?

    Returns ``(ok, error_dict)``.
    """
    _setup()
    result = H.simulate_only(dec_spec(spec), mks(descs))

    return result['error'] is None, result['error']


# ---------------------------------------------------------------------------
# The real Evolver pipeline
# ---------------------------------------------------------------------------

def run_evolver(spec, evolutions, rows=None, database='default'):
    """Run evolutions through ``Evolver`` + ``EvolveAppTask`` (real pipeline).

    Args:
        spec (dict): JSON-able start spec.
        evolutions (list): ``[(label, [mutation desc or object, ...]), ...]``.
        rows (dict): start rows.

    The start models are created and a ``Version`` holding their signature
    is stored (that is what an installed project looks like); then
    ``Evolver()`` is created, an ``EvolveAppTask(evolutions=...)`` queued and
    ``Evolver.evolve()`` called: ``prepare()`` processes the mutations a
    first time, ``_build_batches()`` processes THE SAME mutation objects
    again and that SQL is executed.

    Returns:
        dict: ``error``, ``statements`` (executed, without params),
        ``rebuilds``, ``final_sig``, ``schema``, ``rows``, ``fk_check``,
        ``mutations`` (the real mutation objects).
    """
    _setup()

    from django.db import connections
    from django_evolution.evolve import EvolveAppTask, Evolver
    from django_evolution.models import Evolution, Version
    from django_evolution.tests import models as evo_test

    result = {'error': None, 'statements': [], 'rebuilds': {},
              'final_sig': None, 'schema': {}, 'rows': {}, 'fk_check': [],
              'mutations': []}
    connection = connections[database]
    H._cleanup(database)
    base_version_ids = None
    _clear_custom_migrations()

    try:
        with warnings.catch_warnings():
            warnings.simplefilter('ignore')

            try:
                model_map = H.build_models(dec_spec(spec))
                project_sig = _orig_project_sig_fn[0](model_map)
                H._create_tables(database)

                if rows:
                    H._insert_rows(model_map, _dec_rows(rows), database)

                base_version_ids = set(
                    Version.objects.using(database)
                    .values_list('pk', flat=True))
                latest = Version.objects.using(database).order_by('-pk')[0]
                start_sig = latest.signature.clone()

                if start_sig.get_app_sig(H.APP_LABEL) is not None:
                    start_sig.remove_app_sig(H.APP_LABEL)

                start_sig.add_app_sig(
                    project_sig.get_app_sig(H.APP_LABEL).clone())
                Version(signature=start_sig).save(using=database)

                real_evolutions = []

                for label, items in evolutions:
                    real = [mk(item) if isinstance(item, (list, tuple))
                            else item for item in items]
                    result['mutations'].extend(real)
                    real_evolutions.append({'label': label,
                                            'mutations': real})
            except Exception as e:
                result['error'] = H._error_dict(e, 'setup')

            if result['error'] is None:
                recorded = []

                def recorder(execute, statement, params, many, context):
                    recorded.append(statement)
                    return execute(statement, params, many, context)

                evolver = None
                phase = 'prepare'

                try:
                    with connection.execute_wrapper(recorder):
                        evolver = Evolver(database_name=database)
                        task = EvolveAppTask(evolver, app=evo_test,
                                             evolutions=real_evolutions)
                        evolver.queue_task(task)
                        evolver._prepare_tasks()
                        del recorded[:]
                        phase = 'execute'
                        evolver.evolve()
                except Exception as e:
                    result['error'] = H._error_dict(e, phase)
                    result['error']['detail'] = getattr(
                        e, 'detailed_error', None)

                result['statements'] = [
                    statement for statement in recorded
                    if isinstance(statement, str)
                ]
                result['rebuilds'] = H.count_rebuilds(result['statements'])

                if evolver is not None:
                    try:
                        result['final_sig'] = H.simplify_sig(
                            evolver.project_sig)
                    except Exception as e:  # pragma: no cover
                        result['final_sig'] = {'__error__': repr(e)}

        H._reset_connection(connection)
        result['schema'] = H.introspect_schema(database)
        result['rows'] = H.dump_rows(database)
        result['fk_check'] = H.fk_check(database)
    finally:
        try:
            H._reset_connection(connection)

            if base_version_ids is not None:
                Evolution.objects.using(database).filter(
                    app_label=H.APP_LABEL).delete()
                Evolution.objects.using(database).exclude(
                    version__in=base_version_ids).delete()
                Version.objects.using(database).exclude(
                    pk__in=base_version_ids).delete()
        except Exception:  # pragma: no cover - defensive
            pass

        _clear_custom_migrations()
        H._cleanup(database)

    return result


def _clear_custom_migrations():
    """``EvolveAppTask.prepare_tasks`` registers custom migrations globally
    and only clears them when it does not fail; never leak that into the
    next scenario."""
    try:
        from django_evolution.utils.migrations import \
            clear_global_custom_migrations
        clear_global_custom_migrations()
    except Exception:  # pragma: no cover - defensive
        pass


# ---------------------------------------------------------------------------
# Signature -> spec (the "evolved models"), schema comparison
# ---------------------------------------------------------------------------

def spec_from_sig(project_sig):
    """Build a (non JSON) harness spec describing the evolved models."""
    models = _models()
    app_sig = project_sig.get_app_sig(H.APP_LABEL)
    spec = OrderedDict()

    if app_sig is None:
        return spec

    for model_sig in app_sig.model_sigs:
        fields = OrderedDict()

        for field_sig in model_sig.field_sigs:
            field_type = field_sig.field_type
            attrs = dict(field_sig.field_attrs)

            if (field_sig.field_name == 'id' and
                issubclass(field_type, models.AutoField) and
                attrs.get('primary_key')):
                continue

            attrs.pop('related_model', None)

            if field_sig.related_model:
                app_label, model_name = field_sig.related_model.split('.')

                if app_label == H.APP_LABEL:
                    attrs['to'] = model_name
                else:
                    attrs['to'] = field_sig.related_model

            if issubclass(field_type, models.ManyToManyField):
                attrs.pop('null', None)

                if attrs.get('db_table') is None:
                    attrs.pop('db_table', None)

            fields[field_sig.field_name] = (field_type, attrs)

        meta = OrderedDict()
        meta['db_table'] = model_sig.table_name

        if model_sig.unique_together:
            meta['unique_together'] = [tuple(item) for item in
                                       model_sig.unique_together]

        if model_sig.index_together:
            meta['index_together'] = [tuple(item) for item in
                                      model_sig.index_together]

        indexes = []

        for index_sig in model_sig.index_sigs:
            kwargs = dict(index_sig.attrs or {})

            if index_sig.fields:
                kwargs['fields'] = list(index_sig.fields)

            if index_sig.name:
                kwargs['name'] = index_sig.name

            if index_sig.expressions:
                indexes.append(models.Index(*index_sig.expressions,
                                            **kwargs))
            else:
                indexes.append(models.Index(**kwargs))

        if indexes:
            meta['indexes'] = indexes

        constraints = []

        for constraint_sig in model_sig.constraint_sigs:
            kwargs = dict(constraint_sig.attrs or {})
            kwargs['name'] = constraint_sig.name
            constraints.append(constraint_sig.type(**kwargs))

        if constraints:
            meta['constraints'] = constraints

        spec[model_sig.model_name] = {'fields': fields, 'meta': meta}

    return spec


def fresh_schema_of_sig(project_sig, database='default'):
    """Create the evolved models from scratch and introspect the schema."""
    spec = spec_from_sig(project_sig)

    if not spec:
        return OrderedDict()

    # spec_from_sig() already holds real classes/objects: bypass dec_spec().
    return H.fresh_schema(spec, database=database)


_WS_RE = re.compile(r'\s+')


def _balanced(text, start):
    """Return the index just after the paren group opening at ``start``."""
    depth = 0
    i = start
    in_str = None

    while i < len(text):
        ch = text[i]

        if in_str:
            if ch == in_str:
                in_str = None
        elif ch in ('"', "'"):
            in_str = ch
        elif ch == '(':
            depth += 1
        elif ch == ')':
            depth -= 1

            if depth == 0:
                return i + 1

        i += 1

    return len(text)


def _check_clauses(create_sql):
    clauses = []

    if not create_sql:
        return clauses

    for m in re.finditer(r'\bCHECK\s*\(', create_sql):
        start = m.end() - 1
        end = _balanced(create_sql, start)
        clauses.append(_WS_RE.sub(' ', create_sql[start:end]).strip())

    return sorted(clauses)


def _index_conditions(index_sql):
    result = []

    for statement in index_sql or []:
        m = re.search(r'\)\s*WHERE\s+(.*)$', statement, re.S)

        if m:
            unique = statement.upper().startswith('CREATE UNIQUE')
            cols = re.search(r'\bON\s+"[^"]+"\s*\((.*?)\)\s*WHERE',
                             statement, re.S)
            result.append((int(unique),
                           _WS_RE.sub(' ', cols.group(1)) if cols else None,
                           _WS_RE.sub(' ', m.group(1)).strip()))

    return sorted(result, key=repr)


def norm_table(info):
    """Reduce a harness table description to what C01 talks about."""
    return {
        'columns': dict(
            (name, (str(decl or '').lower(), int(notnull), int(pk)))
            for name, decl, notnull, pk in info['columns']),
        'indexes': sorted([[int(unique), list(cols)]
                           for unique, cols in info['indexes']], key=repr),
        'index_conditions': [list(item) for item in
                             _index_conditions(info.get('index_sql'))],
        'checks': _check_clauses(info.get('create_sql')),
        'foreign_keys': sorted([list(item)
                                for item in info['foreign_keys']], key=repr),
    }


def schema_diff(actual, expected, tables=None):
    """Differences between two harness schemas as a JSON-able list."""
    diffs = []
    names = sorted(set(actual) | set(expected))

    for name in names:
        if tables is not None and name not in tables:
            continue

        if name not in actual:
            diffs.append({'table': name, 'what': 'missing-table'})
            continue

        if name not in expected:
            diffs.append({'table': name, 'what': 'unexpected-table'})
            continue

        a = norm_table(actual[name])
        e = norm_table(expected[name])

        for key in ('columns', 'indexes', 'index_conditions', 'checks',
                    'foreign_keys'):
            if a[key] != e[key]:
                if key == 'columns':
                    detail = {
                        'actual': dict((c, v) for c, v in a[key].items()
                                       if e[key].get(c) != v),
                        'expected': dict((c, v) for c, v in e[key].items()
                                         if a[key].get(c) != v),
                    }
                else:
                    detail = {'actual': a[key], 'expected': e[key]}

                diffs.append(dict({'table': name, 'what': key}, **detail))

    return diffs


def rows_by_name(rows):
    """{table: sorted list of {column: value}} (column order independent)."""
    result = {}

    for table, data in rows.items():
        cols = data['columns']
        result[table] = sorted(
            (dict(zip(cols, row)) for row in data['rows']),
            key=lambda item: json.dumps(item, sort_keys=True, default=repr))

    return result


def schema_ctx(final_sig, rebuilt_tables):
    """Facts about the expected models used to attribute schema differences
    to recorded root causes (see ``classify_schema_atom``)."""
    ctx = {'rebuilt': sorted(t for t in rebuilt_tables if t), 'tables': {}}

    for _model, msig in (final_sig or {}).items():
        table = msig['meta']['db_table']
        cols = dict((f, _field_col(f, info))
                    for f, info in msig['fields'].items())
        meta_indexes = []

        def add(fields):
            if fields:
                meta_indexes.append([cols.get(f.lstrip('-'), f)
                                     for f in fields])

        for prop in ('unique_together', 'index_together'):
            for item in msig['meta'].get(prop) or []:
                add(item)

        for item in msig['meta'].get('indexes') or []:
            add(item.get('fields'))

        for item in msig['meta'].get('constraints') or []:
            add((item.get('attrs') or {}).get('fields'))

        ctx['tables'][table] = {
            'meta_indexes': meta_indexes,
            'positive': [cols[f] for f, info in msig['fields'].items()
                         if info['type'].endswith('PositiveIntegerField')],
        }

    return ctx


def schema_atoms(diff):
    """Split a ``schema_diff`` result into single differences."""
    atoms = []

    for entry in diff:
        table, what = entry['table'], entry['what']

        if what in ('missing-table', 'unexpected-table'):
            atoms.append({'table': table, 'kind': what, 'item': None})
        elif what == 'columns':
            for col, value in sorted(entry['expected'].items()):
                if col in entry['actual']:
                    atoms.append({'table': table, 'kind': 'column-differs',
                                  'item': [col, entry['actual'][col],
                                           value]})
                else:
                    atoms.append({'table': table, 'kind': 'column-missing',
                                  'item': [col, value]})

            for col, value in sorted(entry['actual'].items()):
                if col not in entry['expected']:
                    atoms.append({'table': table, 'kind': 'column-extra',
                                  'item': [col, value]})
        else:
            actual = list(entry['actual'])
            expected = list(entry['expected'])

            for item in list(expected):
                if item in actual:
                    actual.remove(item)
                    expected.remove(item)

            singular = {'indexes': 'index', 'index_conditions':
                        'index-condition', 'checks': 'check',
                        'foreign_keys': 'foreign-key'}[what]

            for item in expected:
                atoms.append({'table': table, 'kind': singular + '-missing',
                              'item': item})

            for item in actual:
                atoms.append({'table': table, 'kind': singular + '-extra',
                              'item': item})

    return atoms


def classify_schema_atom(atom, ctx):
    """Attribute one schema difference to a recorded root cause (or None).

    Deliberately narrow: anything not exactly of a recorded shape stays
    unexplained and the failure stays ``known: False``.
    """
    table = atom['table']
    info = ctx['tables'].get(table)
    rebuilt = table in ctx['rebuilt']
    kind, item = atom['kind'], atom['item']

    if info is None:
        return None

    if kind == 'check-missing':
        m = re.match(r'^\("([^"]+)" >= 0\)$', item)

        if m and m.group(1) in info['positive']:
            return 'positive-integer-check-not-created'

        if rebuilt:
            return 'rebuild-loses-table-level-objects'

    if kind == 'index-missing' and rebuilt and \
       list(item[1]) in info['meta_indexes']:
        return 'rebuild-loses-table-level-objects'

    if kind == 'index-condition-missing' and rebuilt:
        return 'rebuild-loses-table-level-objects'

    return None


def explain_schema_diff(diff, final_sig, rebuilt_tables):
    """``{'atoms': [...], 'causes': [...]}`` for a schema diff."""
    ctx = schema_ctx(final_sig, rebuilt_tables)
    atoms = schema_atoms(diff)
    causes = set()

    for atom in atoms:
        atom['cause'] = classify_schema_atom(atom, ctx)
        causes.add(atom['cause'] or '?')

    return {'atoms': atoms, 'causes': sorted(causes),
            'rebuilt': ctx['rebuilt']}


# ---------------------------------------------------------------------------
# Worker pool
# ---------------------------------------------------------------------------

_EVALS = {}


def _eval_task(task):
    suite_id, scenario = task

    try:
        _setup()
        outcome = _EVALS[suite_id](scenario)
    except Exception as e:  # harness/oracle bug, never a property failure
        outcome = {'nontrivial': False, 'skipped': 'internal-error',
                   'failures': [],
                   'internal_error': '%s: %s\n%s' % (
                       type(e).__name__, e, traceback.format_exc()[-1500:])}

    return outcome


def _map(suite_id, scenarios, workers=None, deadline=None):
    """Evaluate scenarios (a list) in a fork pool; yields (scenario, out)."""
    _setup()
    scenarios = list(scenarios)
    tasks = [(suite_id, scenario) for scenario in scenarios]

    if workers is None:
        workers = min(MAX_WORKERS, os.cpu_count() or 1)

    if workers <= 1 or len(tasks) < 8:
        for task in tasks:
            if deadline is not None and time.time() > deadline:
                break

            yield task[1], _eval_task(task)

        return

    ctx = multiprocessing.get_context('fork')
    pool = ctx.Pool(workers)

    try:
        chunk = max(1, min(16, len(tasks) // (workers * 8) or 1))
        index = 0

        for outcome in pool.imap(_eval_task, tasks, chunksize=chunk):
            yield scenarios[index], outcome
            index += 1

            if deadline is not None and time.time() > deadline:
                break
    finally:
        pool.terminate()
        pool.join()


def _known_match(known_list, clause, scenario, observed):
    for entry in known_list:
        if entry['clause'] != clause:
            continue

        pred = entry.get('pred')

        try:
            if pred is None or pred(scenario, observed):
                return entry
        except Exception:
            continue

    return None


def _collect(suite_id, scenarios, known_list, rule, exhaustive, t0,
             budget=None, workers=None):
    """Run scenarios, gather the suite result dict."""
    evaluations = 0
    nontrivial = set()
    failures = []
    failure_counts = {}
    samples = []
    skipped = {}
    internal = []
    deadline = (t0 + budget) if budget else None
    total = len(scenarios)
    truncated = False

    for scenario, outcome in _map(suite_id, scenarios, workers=workers,
                                  deadline=deadline):
        evaluations += 1
        key = json.dumps(scenario, sort_keys=True, default=repr)

        if outcome.get('internal_error'):
            if len(internal) < 3:
                internal.append({'inputs': scenario,
                                 'error': outcome['internal_error']})

        if outcome.get('skipped'):
            skipped[outcome['skipped']] = \
                skipped.get(outcome['skipped'], 0) + 1

        if outcome.get('nontrivial'):
            nontrivial.add(key)

        for clause, observed in outcome.get('failures', []):
            entry = _known_match(known_list, clause, scenario, observed)
            tag = '%s%s' % (clause, ':known:' + entry['id'] if entry else '')
            failure_counts[tag] = failure_counts.get(tag, 0) + 1
            record = {'clause': clause, 'inputs': scenario,
                      'observed': H.to_jsonable(observed),
                      'known': entry is not None}

            if entry is not None:
                record['known_id'] = entry['id']

            # Keep at most MAX_FAILURES, preferring unknown ones and one
            # witness per (clause, known id).
            failures.append(record)

        if len(samples) < 3 and outcome.get('nontrivial') and (
                len(samples) < 2 or outcome.get('failures')):
            samples.append({'inputs': scenario,
                            'outcome': H.to_jsonable(
                                outcome.get('summary') or
                                {'failures': [c for c, _o in
                                              outcome.get('failures', [])]})})

    if evaluations < total:
        truncated = True

    def size(record):
        return len(json.dumps(record['inputs'], default=repr))

    unknown = sorted([f for f in failures if not f['known']], key=size)
    known = sorted([f for f in failures if f['known']], key=size)
    picked = []
    seen = set()

    for record in unknown + known:
        tag = (record['clause'], record.get('known_id'))

        if tag in seen and record['known']:
            continue

        if tag in seen and len(picked) >= MAX_FAILURES // 2:
            continue

        seen.add(tag)
        picked.append(record)

        if len(picked) >= MAX_FAILURES:
            break

    return {
        'evaluations': evaluations,
        'distinct_nontrivial': len(nontrivial),
        'failures': picked,
        'failure_counts': failure_counts,
        'unknown_failures': len(unknown),
        'known_failures': len(known),
        'samples': samples,
        'exhaustive': bool(exhaustive and not truncated),
        'truncated': truncated,
        'planned': total,
        'skipped': skipped,
        'internal_errors': internal,
        'rule': rule,
        'elapsed': round(time.time() - t0, 2),
    }


# ---------------------------------------------------------------------------
# Mutation sequence space (shared by C03 and C18; re-used by C01/C02)
# ---------------------------------------------------------------------------

#: Start models of the sequence space: two related models and a bystander
#: (``Z``) that no mutation ever names or relates to.
SEQ_SPEC = OrderedDict([
    ('A', {'fields': OrderedDict([
        ('a1', ['CharField', {'max_length': 20}]),
        ('a2', ['IntegerField', {'null': True}]),
        ('a3', ['CharField', {'max_length': 10, 'null': True}]),
    ]), 'meta': {}}),
    ('B', {'fields': OrderedDict([
        ('b1', ['IntegerField', {}]),
        ('ref', ['ForeignKey', {'to': 'A', 'null': True}]),
    ]), 'meta': {}}),
    ('Z', {'fields': OrderedDict([
        ('z1', ['CharField', {'max_length': 8, 'unique': True}]),
        ('z2', ['IntegerField', {'db_index': True}]),
    ]), 'meta': {}}),
])

SEQ_ROWS = OrderedDict([
    ('A', [
        {'a1': 'first', 'a2': 1, 'a3': 'x'},
        {'a1': "it's 100%", 'a2': None, 'a3': None},
        {'a1': '', 'a2': -2147483648, 'a3': 'q"uote'},
    ]),
    ('B', [
        {'b1': 10, 'ref': 1},
        {'b1': -5, 'ref': None},
    ]),
    ('Z', [
        {'z1': 'z-one', 'z2': 1},
        {'z1': '%s', 'z2': 2},
    ]),
])

_BARRIER_SIM = ['SQLMutation', 'barrier', ['SELECT 1;'], 'sim']
_BARRIER_NOSIM = ['SQLMutation', 'barrier_nosim', ['SELECT 1;'], 'nosim']

_REL = ('ForeignKey', 'OneToOneField', 'ManyToManyField')


class SeqState(object):
    """Light-weight model of the signature, only used to PROPOSE mutations.

    Whether a proposed sequence really is valid is always decided by the
    real simulation (``sim_valid``) and the real one-at-a-time run.
    """

    #: names a model may be renamed to: one that sorts after and one that
    #: sorts before the other model names.
    RENAME_TARGETS = {'A': 'C', 'B': 'Aa', 'C': 'A', 'Aa': 'B'}

    def __init__(self, spec, protected=('Z',)):
        self.models = OrderedDict()
        self.protected = set(protected)
        self.graveyard = {}

        for name, model_spec in spec.items():
            self.models[name] = {
                'table': (model_spec.get('meta') or {}).get(
                    'db_table', 'tests_%s' % name.lower()),
                'fields': OrderedDict(
                    (fname, [info[0], dict(info[1])])
                    for fname, info in model_spec['fields'].items()),
                'meta': dict(model_spec.get('meta') or {}),
            }

    def clone(self):
        return copy.deepcopy(self)

    # -- bookkeeping ----------------------------------------------------
    def apply(self, desc):
        kind = desc[0]
        models = self.models

        if kind == 'AddField':
            kwargs = dict(desc[4])
            kwargs.pop('initial', None)
            related = kwargs.pop('related_model', None)

            if related:
                kwargs['to'] = related.split('.')[1]

            models[desc[1]]['fields'][desc[2]] = [desc[3], kwargs]
        elif kind == 'ChangeField':
            info = models[desc[1]]['fields'][desc[2]]
            kwargs = dict(desc[3])
            kwargs.pop('initial', None)
            field_type = kwargs.pop('field_type', None)

            if field_type:
                info[0] = field_type
                info[1] = kwargs
            else:
                info[1].update(kwargs)
        elif kind == 'DeleteField':
            del models[desc[1]]['fields'][desc[2]]
            self.graveyard.setdefault(desc[1], []).append(desc[2])
        elif kind == 'RenameField':
            fields = models[desc[1]]['fields']
            models[desc[1]]['fields'] = OrderedDict(
                (desc[3] if name == desc[2] else name, info)
                for name, info in fields.items())
            meta = models[desc[1]]['meta']

            for prop in ('unique_together', 'index_together'):
                if meta.get(prop):
                    meta[prop] = [[desc[3] if f == desc[2] else f
                                   for f in item] for item in meta[prop]]
        elif kind == 'ChangeMeta':
            models[desc[1]]['meta'][desc[2]] = desc[3]
        elif kind == 'RenameModel':
            self.models = OrderedDict(
                (desc[2] if name == desc[1] else name, info)
                for name, info in models.items())
            self.models[desc[2]]['table'] = desc[3]

            if desc[1] in self.graveyard:
                self.graveyard[desc[2]] = self.graveyard.pop(desc[1])

            for info in self.models.values():
                for finfo in info['fields'].values():
                    if finfo[1].get('to') == desc[1]:
                        finfo[1]['to'] = desc[2]
        elif kind == 'DeleteModel':
            del models[desc[1]]
        elif kind == 'DeleteApplication':
            self.models = OrderedDict()

    def referenced(self, model_name):
        for name, info in self.models.items():
            for finfo in info['fields'].values():
                if finfo[1].get('to') == model_name and name != model_name:
                    return True

        return False

    # -- proposals ------------------------------------------------------
    def candidates(self, level):
        """All proposed next mutations for this state.

        Levels: 'mini' (model A only, few kinds), 'core', 'full'.
        """
        result = []
        full = level == 'full'
        mini = level == 'mini'

        for mname, minfo in self.models.items():
            if mname in self.protected:
                continue

            if mini and mname not in ('A', 'C'):
                # Only two mutations touch the second model in 'mini'.
                if 'b1' in minfo['fields']:
                    result.append(['DeleteField', mname, 'b1'])

                continue

            fields = minfo['fields']
            plain = [f for f, info in fields.items() if info[0] not in _REL]
            grave = [g for g in self.graveyard.get(mname, [])
                     if g not in fields]

            # AddField
            add_names = [n for n in ['x', 'y'] if n not in fields]

            if grave:
                add_names.append(grave[0])

            for i, name in enumerate(add_names[:2 if not full else 3]):
                if i == 0 or full:
                    result.append(['AddField', mname, name, 'IntegerField',
                                   {'initial': 7}])

                if i == 1 or full or (mini and i == 0):
                    result.append(['AddField', mname, name, 'CharField',
                                   {'max_length': 8, 'initial': "i'%"}])

                if full:
                    result.append(['AddField', mname, name, 'CharField',
                                   {'max_length': 8, 'null': True}])

            if full and 'lnk' not in fields:
                others = [o for o in self.models
                          if o != mname and o not in self.protected]

                for other in others[:1]:
                    result.append(['AddField', mname, 'lnk', 'ForeignKey',
                                   {'null': True,
                                    'related_model': 'tests.%s' % other}])
                    result.append(['AddField', mname, 'lnk',
                                   'ManyToManyField',
                                   {'related_model': 'tests.%s' % other}])

            meta_now = minfo['meta']
            # Fields referenced by Meta options.  RenameField never rewrites
            # Meta and DeleteField only rewrites unique_together, so naming
            # such a field would describe an inconsistent model (nothing to
            # compare against): those proposals are left out.
            in_unique_together = set(
                f for item in (meta_now.get('unique_together') or [])
                for f in item)
            in_other_meta = set(
                f for item in (meta_now.get('index_together') or [])
                for f in item)

            for item in (meta_now.get('indexes') or []):
                in_other_meta.update(item.get('fields') or [])

            for item in (meta_now.get('constraints') or []):
                in_other_meta.update(item.get('fields') or [])

            for fname in list(fields):
                ftype, kwargs = fields[fname]
                is_rel = ftype in _REL
                meta_ref = (fname in in_unique_together or
                            fname in in_other_meta)

                if not is_rel:
                    if kwargs.get('null'):
                        init = ('n%' if ftype in ('CharField', 'TextField')
                                else 5)
                        result.append(['ChangeField', mname, fname,
                                       {'null': False, 'initial': init}])
                    elif full:
                        result.append(['ChangeField', mname, fname,
                                       {'null': True}])

                    if ftype == 'CharField' and not mini:
                        result.append(['ChangeField', mname, fname,
                                       {'max_length':
                                        kwargs.get('max_length', 10) + 5}])

                    if full:
                        result.append(['ChangeField', mname, fname,
                                       {'db_index':
                                        not kwargs.get('db_index', False)}])
                        result.append(['ChangeField', mname, fname,
                                       {'unique':
                                        not kwargs.get('unique', False)}])

                        if not kwargs.get('db_column'):
                            result.append(['ChangeField', mname, fname,
                                           {'db_column': 'c_%s' % fname}])

                        if ftype == 'CharField':
                            result.append(['ChangeField', mname, fname,
                                           {'field_type': 'TextField',
                                            'null': kwargs.get('null',
                                                               False)}])
                        elif ftype == 'IntegerField':
                            result.append(['ChangeField', mname, fname,
                                           {'field_type': 'CharField',
                                            'max_length': 12,
                                            'null': kwargs.get('null',
                                                               False)}])

                if ((ftype != 'ManyToManyField' or full) and
                    fname not in in_other_meta):
                    result.append(['DeleteField', mname, fname])

                if meta_ref:
                    continue

                if not mini or fname in ('a2', 'x', 'r'):
                    targets = ['r'] if 'r' not in fields else ['x']
                    targets += grave[:1]

                    for target in targets[:2 if not mini else 1]:
                        if target not in fields and target != fname:
                            result.append(['RenameField', mname, fname,
                                           target, {}])

                    if full and not is_rel and 'r' not in fields:
                        result.append(['RenameField', mname, fname, 'r',
                                       {'db_column': 'col_r'}])

            # ChangeMeta
            meta = minfo['meta']

            if meta.get('unique_together'):
                result.append(['ChangeMeta', mname, 'unique_together', []])
            elif len(plain) >= 2:
                result.append(['ChangeMeta', mname, 'unique_together',
                               [[plain[0], plain[-1]]]])

            if full:
                if meta.get('index_together'):
                    result.append(['ChangeMeta', mname, 'index_together',
                                   []])
                elif len(plain) >= 2:
                    result.append(['ChangeMeta', mname, 'index_together',
                                   [[plain[0], plain[1]]]])

                if meta.get('indexes'):
                    result.append(['ChangeMeta', mname, 'indexes', []])
                elif plain:
                    result.append(['ChangeMeta', mname, 'indexes',
                                   [{'fields': [plain[0]],
                                     'name': 'ix_%s' % mname.lower()}]])

                if meta.get('constraints'):
                    result.append(['ChangeMeta', mname, 'constraints', []])
                elif plain:
                    result.append(['ChangeMeta', mname, 'constraints',
                                   [{'type': {'__cls__': 'UniqueConstraint'},
                                     'name': 'uc_%s' % mname.lower(),
                                     'fields': [plain[0]]}]])

            # RenameModel / DeleteModel
            target = self.RENAME_TARGETS.get(mname)

            if target and target not in self.models:
                result.append(['RenameModel', mname, target,
                               'tests_%s' % target.lower()])

                if full:
                    result.append(['RenameModel', mname, target,
                                   minfo['table']])

            if not mini and not self.referenced(mname):
                result.append(['DeleteModel', mname])

        if not mini or True:
            result.append(list(_BARRIER_SIM))

        if full:
            result.append(list(_BARRIER_NOSIM))

        return result


def enum_sequences(spec, level, max_len):
    """Exhaustively enumerate proposed sequences of length 1..max_len."""
    result = []

    def rec(state, prefix):
        for desc in state.candidates(level):
            seq = prefix + [desc]
            result.append(seq)

            if len(seq) < max_len:
                nxt = state.clone()

                try:
                    nxt.apply(desc)
                except Exception:
                    continue

                rec(nxt, seq)

    rec(SeqState(spec), [])

    return result


def random_sequence(spec, level, length, rng):
    state = SeqState(spec)
    seq = []

    for _i in range(length):
        cands = state.candidates(level)

        if not cands:
            break

        # Bias towards field level mutations, keep model level ones rare.
        weights = [0.25 if c[0] in ('DeleteModel', 'SQLMutation') else
                   0.5 if c[0] == 'RenameModel' else 1.0 for c in cands]
        desc = rng.choices(cands, weights=weights, k=1)[0]
        seq.append(desc)

        try:
            state.apply(desc)
        except Exception:
            break

    return seq


def _dedup(seqs):
    seen = set()
    result = []

    for seq in seqs:
        key = json.dumps(seq, sort_keys=True)

        if key not in seen:
            seen.add(key)
            result.append(seq)

    return result


# ---------------------------------------------------------------------------
# Shared comparison helpers
# ---------------------------------------------------------------------------

def _canon(value):
    return json.dumps(H.to_jsonable(value), sort_keys=True, default=repr)


def _sig_equal(sig_a, sig_b):
    """Equality of two simplified (normalised) signatures, order-free."""
    return _canon(sig_a) == _canon(sig_b)


def _sig_delta(sig_a, sig_b):
    """Small JSON-able description of where two simplified sigs differ."""
    delta = {}
    sig_a = H.to_jsonable(sig_a) or {}
    sig_b = H.to_jsonable(sig_b) or {}

    for model in sorted(set(sig_a) | set(sig_b)):
        if model not in sig_a or model not in sig_b:
            delta[model] = ('only-in-second' if model not in sig_a
                            else 'only-in-first')
            continue

        fa, fb = sig_a[model]['fields'], sig_b[model]['fields']

        for field in sorted(set(fa) | set(fb)):
            if _canon(fa.get(field)) != _canon(fb.get(field)):
                delta['%s.%s' % (model, field)] = [fa.get(field),
                                                   fb.get(field)]

        if _canon(sig_a[model]['meta']) != _canon(sig_b[model]['meta']):
            ma, mb = sig_a[model]['meta'], sig_b[model]['meta']
            delta['%s.Meta' % model] = dict(
                (key, [ma.get(key), mb.get(key)])
                for key in set(ma) | set(mb)
                if _canon(ma.get(key)) != _canon(mb.get(key)))

    return delta


def _rows_delta(rows_a, rows_b):
    a, b = rows_by_name(rows_a), rows_by_name(rows_b)
    delta = {}

    for table in sorted(set(a) | set(b)):
        if _canon(a.get(table)) != _canon(b.get(table)):
            delta[table] = {'first': a.get(table), 'second': b.get(table)}

    return delta


def _err_brief(error):
    if error is None:
        return None

    return dict((key, error.get(key))
                for key in ('class', 'message', 'phase', 'group',
                            'failed_statement', 'detail')
                if error.get(key) is not None)


def _compare_outcomes(first, second, prefix, failures, first_name,
                      second_name):
    """Append '<prefix>-signature/-schema/-rows' failures on difference."""
    if not _sig_equal(first['final_sig'], second['final_sig']):
        failures.append((prefix + '-signature', {
            'differs': '%s vs %s' % (first_name, second_name),
            'delta': _sig_delta(first['final_sig'], second['final_sig'])}))

    diff = schema_diff(first['schema'], second['schema'])

    if diff:
        rebuilt = set(first.get('rebuilds') or {}) | \
            set(second.get('rebuilds') or {})
        failures.append((prefix + '-schema', dict({
            'differs': '%s (actual) vs %s (expected)'
                       % (first_name, second_name),
            'diff': diff},
            **explain_schema_diff(diff, second['final_sig'], rebuilt))))

    delta = _rows_delta(first['rows'], second['rows'])

    if delta:
        failures.append((prefix + '-rows', {
            'differs': '%s (first) vs %s (second)'
                       % (first_name, second_name),
            'delta': delta}))


def _split_evolutions(muts, parts):
    """Spread mutations over ``parts`` evolutions (labels e0, e1, ...)."""
    parts = max(1, min(parts, len(muts)))
    size = (len(muts) + parts - 1) // parts
    result = []

    for i in range(parts):
        chunk = muts[i * size:(i + 1) * size]

        if chunk:
            result.append(('e%d' % i, chunk))

    return result


# ---------------------------------------------------------------------------
# C03 - optimising a mutation sequence never changes its outcome
# ---------------------------------------------------------------------------

def eval_C03(sc):
    spec, rows, muts = sc['spec'], sc.get('rows'), sc['muts']
    out = {'nontrivial': False, 'skipped': None, 'failures': [],
           'summary': {}}

    ok, error = sim_valid(spec, muts)

    if not ok:
        out['skipped'] = 'simulation-invalid'
        return out

    single = run(spec, [[m] for m in muts], rows)

    if single['error'] is not None:
        out['skipped'] = 'one-at-a-time-rejected:%s' % single['error']['class']
        return out

    out['nontrivial'] = len(muts) >= 2
    failures = out['failures']

    # -- bare AppMutator, all mutations in one optimised run ---------------
    objs = mks(muts)
    before = [mutation_fingerprint(m) for m in objs]
    before_desc = [desc_of(m) for m in objs]
    first = run(spec, [objs], rows)
    after = [mutation_fingerprint(m) for m in objs]

    if first['error'] is not None:
        failures.append(('batched-accepted', {
            'error': _err_brief(first['error'])}))
    else:
        _compare_outcomes(first, single, 'batched-same', failures,
                          'optimised run', 'one at a time')

    if before != after:
        failures.append(('definitions-unaltered', {
            'changed': [
                {'index': i, 'before': before_desc[i],
                 'after': desc_of(objs[i])}
                for i in range(len(objs)) if before[i] != after[i]
            ]}))

    # -- the same definitions (objects) processed again --------------------
    if sc.get('rerun', True):
        second = run(spec, [objs], rows)
        same = ((first['error'] is None) == (second['error'] is None))
        observed = {}

        if not same:
            observed['errors'] = [_err_brief(first['error']),
                                  _err_brief(second['error'])]
        elif first['error'] is None:
            sub = []
            _compare_outcomes(second, first, 'x', sub, 'second processing',
                              'first processing')

            if sub:
                observed['differences'] = [
                    {'what': clause[2:], 'detail': detail}
                    for clause, detail in sub]
        elif first['error']['class'] != second['error']['class']:
            observed['errors'] = [_err_brief(first['error']),
                                  _err_brief(second['error'])]

        if observed:
            failures.append(('rerun-same-result', observed))

    # -- the real Evolver task pipeline -------------------------------------
    if sc.get('evolver', True):
        for parts in sc.get('evolver_parts', [1]):
            ev = run_evolver(spec, _split_evolutions(muts, parts), rows)

            if ev['error'] is not None:
                failures.append(('evolver-accepted', {
                    'evolutions': parts,
                    'error': _err_brief(ev['error'])}))
            else:
                _compare_outcomes(ev, single, 'evolver-same', failures,
                                  'Evolver pipeline (%d evolution(s))'
                                  % parts, 'one at a time')

    out['summary'] = {
        'length': len(muts),
        'failed_clauses': sorted(set(c for c, _o in failures)),
        'rebuilds_single': dict(single['rebuilds']),
        'rebuilds_batched': dict(first['rebuilds']),
    }

    return out


_EVALS['C03'] = eval_C03


def _seq_scenarios(tier, seed, purpose):
    """The C03 space of mutation sequences (also used by C18)."""
    rng = random.Random(seed)
    quick = tier == 'quick'
    groups = []

    if quick:
        exhaustive = [('mini', 3), ('core', 1)]
        sampled = [('core', 2, 260), ('full', 2, 120)]
        randoms = [(60, 'core', (3, 6)), (60, 'full', (4, 12))]
    else:
        exhaustive = [('mini', 4), ('core', 2), ('full', 1)]
        sampled = [('core', 3, 3000), ('full', 2, 2500)]
        randoms = [(1200, 'core', (4, 12)), (1800, 'full', (4, 12))]

    seqs = []

    for level, max_len in exhaustive:
        part = enum_sequences(SEQ_SPEC, level, max_len)
        groups.append('exhaustive %s<=%d: %d' % (level, max_len, len(part)))
        seqs.extend(part)

    for level, max_len, count in sampled:
        part = [seq for seq in enum_sequences(SEQ_SPEC, level, max_len)
                if len(seq) == max_len]
        part = rng.sample(part, min(count, len(part)))
        groups.append('sample of %s len %d: %d' % (level, max_len,
                                                   len(part)))
        seqs.extend(part)

    for count, level, (lo, hi) in randoms:
        part = [random_sequence(SEQ_SPEC, level, rng.randint(lo, hi), rng)
                for _i in range(count)]
        groups.append('random %s len %d-%d: %d' % (level, lo, hi,
                                                   len(part)))
        seqs.extend(part)

    seqs = _dedup(seqs)

    return seqs, groups, bool(exhaustive)


KNOWN_C03 = []

RULE_C03 = (
    'Start models A(a1 char, a2 int null, a3 char null), B(b1 int, ref '
    'FK->A null), bystander Z, 3+2+2 rows.  Sequences are proposed by a '
    'state tracking generator (SeqState: AddField incl. re-use of deleted '
    'names, ChangeField null/max_length[/db_index/unique/db_column/type], '
    'DeleteField, RenameField[+db_column], ChangeMeta unique_together'
    '[/index_together/indexes/constraints], RenameModel to a name sorting '
    'before/after, DeleteModel, SQLMutation barriers with[/without] '
    'update_func; [..] only in level "full"), exhaustively for the listed '
    '(level, length) pairs plus seeded samples/random walks.  A sequence '
    'is skipped when the pure one-by-one simulation or the real '
    'one-mutation-per-AppMutator run rejects it.  Non-trivial = accepted '
    'one at a time and length >= 2.  Clauses: batched-accepted, '
    'batched-same-{signature,schema,rows}, definitions-unaltered (vars() '
    'of every mutation object before/after processing), rerun-same-result '
    '(the same objects through a second AppMutator on a fresh database), '
    'evolver-accepted / evolver-same-* (Evolver + EvolveAppTask: prepare() '
    'then _build_batches(), mutations spread over 1 or 2 evolutions).'
)


def suite_C03(tier='quick', seed=0):
    t0 = time.time()
    _setup()
    seqs, groups, exhaustive = _seq_scenarios(tier, seed, 'C03')
    scenarios = []

    for i, seq in enumerate(seqs):
        sc = {'spec': SEQ_SPEC, 'rows': SEQ_ROWS, 'muts': seq}

        if tier == 'quick':
            # The Evolver pipeline costs ~4 plain runs: every 2nd scenario.
            sc['evolver'] = (i % 2 == 0)
            sc['evolver_parts'] = [1 if i % 4 else 2]
        else:
            sc['evolver_parts'] = [1, 2] if len(seq) >= 2 else [1]

        scenarios.append(sc)

    result = _collect('C03', scenarios, KNOWN_C03,
                      RULE_C03 + '  Scope: ' + '; '.join(groups),
                      exhaustive, t0,
                      budget=55 if tier == 'quick' else 14 * 60)

    return result


def replay_C03(inputs):
    _setup()
    out = _eval_task(('C03', inputs))

    return {'reproduced': bool(out['failures']),
            'clauses': sorted(set(c for c, _o in out['failures'])),
            'failures': H.to_jsonable(out['failures']),
            'skipped': out.get('skipped'),
            'internal_error': out.get('internal_error')}


# ---------------------------------------------------------------------------
# Row helpers shared by C01 / C02
# ---------------------------------------------------------------------------

_TYPE_VALUES = {
    'CharField': ['plain', '', "it's", '100%', 'dq"uote', '%s %d'],
    'TextField': ['text', '', "o'text", '50% off', 'line\nbreak', '%(x)s'],
    'IntegerField': [1, 0, -1, 2147483647, -2147483648, 42],
    'BigIntegerField': [9223372036854775807, 0, -9223372036854775808, 5,
                        -5, 1099511627776],
    'PositiveIntegerField': [0, 1, 2147483647, 7, 8, 9],
    'BooleanField': [1, 0, 1, 0, 1, 0],
    'DecimalField': [12.5, 0, -0.25, 9999.99, -9999.99, 1],
    'DateTimeField': ['2020-01-02 03:04:05', '1970-01-01 00:00:00',
                      '2038-01-19 03:14:07.999999', '2000-02-29 12:00:00',
                      '1999-12-31 23:59:59', '2024-06-30 00:00:00.000001'],
}

_TYPE_INITIAL = {
    'CharField': 'ini',
    'TextField': "t'x%t",
    'IntegerField': 3,
    'BigIntegerField': 1099511627776,
    'PositiveIntegerField': 4,
    'BooleanField': True,
    'DecimalField': 1.5,
    'DateTimeField': '2001-02-03 04:05:06',
    'ForeignKey': 1,
    'OneToOneField': 1,
}


def auto_rows(spec, count, null_every=3, safe=False):
    """Deterministic rows for every model of a spec.

    Unique columns get distinct values, nullable columns are NULL in every
    ``null_every``-th row (starting with the 2nd), relation columns point at
    row ``i`` of the target (which gets ``count`` rows as well) and
    auto-created many-to-many tables get one link per row.
    """
    rows = OrderedDict()
    m2m = OrderedDict()

    for model_name, model_spec in spec.items():
        table_rows = []
        table = (model_spec.get('meta') or {}).get(
            'db_table', 'tests_%s' % model_name.lower())

        for i in range(count):
            row = OrderedDict()

            for fname, (ftype, kwargs) in model_spec['fields'].items():
                if ftype == 'ManyToManyField':
                    if kwargs.get('through'):
                        continue

                    target = kwargs['to']
                    m2m_table = kwargs.get('db_table') or '%s_%s' % (table,
                                                                     fname)

                    if target in ('self', model_name):
                        cols = ('from_%s_id' % model_name.lower(),
                                'to_%s_id' % model_name.lower())
                    else:
                        cols = ('%s_id' % model_name.lower(),
                                '%s_id' % target.lower())

                    m2m.setdefault(m2m_table, []).append(OrderedDict([
                        (cols[0], i + 1), (cols[1], count - i)]))
                    continue

                nullable = kwargs.get('null')
                unique = kwargs.get('unique') or ftype == 'OneToOneField'

                if nullable and i % null_every == 1:
                    row[fname] = None
                elif ftype in ('ForeignKey', 'OneToOneField'):
                    row[fname] = i + 1
                else:
                    values = _TYPE_VALUES[ftype]
                    value = values[i % len(values)]

                    if unique and ftype in ('CharField', 'TextField'):
                        value = '%s#%d' % (value[:4], i)
                    elif unique and ftype == 'BooleanField':
                        value = i % 2
                    elif unique and ftype != 'DateTimeField':
                        value = i + 1 if ftype != 'DecimalField' else i + 0.5

                    if safe and not unique:
                        # distinct, non-negative: never trips a unique or
                        # ">= 0" check constraint of the start models
                        if ftype in ('CharField', 'TextField'):
                            value = '%d%s' % (i, value)
                        elif ftype in ('IntegerField', 'BigIntegerField',
                                       'PositiveIntegerField'):
                            value = abs(value) % 1000 + 10 * (i + 1)
                        elif ftype == 'DecimalField':
                            value = round(abs(value) % 100 + 200 * i, 2)

                    if ftype == 'CharField' and kwargs.get('max_length'):
                        value = value[:kwargs['max_length']]

                    row[fname] = value

            table_rows.append(row)

        rows[model_name] = table_rows

    for table, links in m2m.items():
        rows[table] = links

    return rows


_start_dump_cache = {}


def start_dump(spec, rows):
    """Raw rows of the freshly created + populated start tables (cached)."""
    key = _canon([spec, rows])

    if key not in _start_dump_cache:
        if len(_start_dump_cache) > 200:
            _start_dump_cache.clear()

        data = H.fresh_schema(dec_spec(spec), rows=_dec_rows(rows),
                              with_rows=True)
        _start_dump_cache[key] = data

    return _start_dump_cache[key]


def _veq(a, b):
    if a is None or b is None:
        return a is None and b is None

    num = (int, float, bool)

    if isinstance(a, num) and isinstance(b, num):
        return float(a) == float(b)

    return type(a) == type(b) and a == b


def _loose_eq(a, b):
    if a is None or b is None:
        return a is None and b is None

    if _veq(a, b):
        return True

    try:
        return float(a) == float(b)
    except (TypeError, ValueError):
        return str(a) == str(b)


def _initial_value(initial):
    """The value an ``initial`` description is expected to store."""
    if isinstance(initial, dict) and '__callable__' in initial:
        return initial.get('value')

    if isinstance(initial, bool):
        return int(initial)

    return initial


def _field_col(fname, finfo):
    ftype = finfo['type'].rsplit('.', 1)[1]

    if ftype == 'ManyToManyField':
        return None

    column = finfo['attrs'].get('db_column')

    if column:
        return column

    if ftype in ('ForeignKey', 'OneToOneField'):
        return fname + '_id'

    return fname


def _m2m_table(model_sig, fname, finfo):
    return (finfo['attrs'].get('db_table') or
            '%s_%s' % (model_sig['meta']['db_table'], fname))


class RowTracker(object):
    """Follows field identities through a mutation sequence (the oracle's
    own, independent bookkeeping of what must survive)."""

    def __init__(self, start_sig):
        self.fields = {}     # (model, field) -> info
        self.tables = {}     # model -> start table (identity of the model)
        self.dropped = False

        for model, msig in start_sig.items():
            self.tables[model] = msig['meta']['db_table']

            for fname, finfo in msig['fields'].items():
                col = _field_col(fname, finfo)
                self.fields[(model, fname)] = {
                    'origin': ((msig['meta']['db_table'], col)
                               if col else None),
                    'm2m_origin': (_m2m_table(msig, fname, finfo)
                                   if col is None else None),
                    'added': False,
                    'new_value': None,
                    'nullfix': [],
                    'typechanged': False,
                    'nullable': bool(finfo['attrs'].get('null')),
                }

    def apply(self, desc):
        kind = desc[0]

        if kind == 'AddField':
            kwargs = desc[4] or {}
            is_m2m = desc[3] == 'ManyToManyField'
            self.fields[(desc[1], desc[2])] = {
                'origin': None, 'm2m_origin': None, 'added': True,
                'is_m2m': is_m2m,
                'new_value': _initial_value(kwargs.get('initial')),
                'nullfix': [], 'typechanged': False,
                'nullable': bool(kwargs.get('null')),
            }
        elif kind == 'ChangeField':
            info = self.fields[(desc[1], desc[2])]
            kwargs = desc[3] or {}

            if 'field_type' in kwargs:
                info['typechanged'] = True

            if 'null' in kwargs:
                if (kwargs['null'] is False and info['nullable'] and
                    kwargs.get('initial') is not None):
                    info['nullfix'].append(
                        _initial_value(kwargs['initial']))

                info['nullable'] = bool(kwargs['null'])
        elif kind == 'DeleteField':
            del self.fields[(desc[1], desc[2])]
        elif kind == 'RenameField':
            self.fields[(desc[1], desc[3])] = \
                self.fields.pop((desc[1], desc[2]))
        elif kind == 'RenameModel':
            for (model, fname) in list(self.fields):
                if model == desc[1]:
                    self.fields[(desc[2], fname)] = \
                        self.fields.pop((model, fname))

            self.tables[desc[2]] = self.tables.pop(desc[1])
        elif kind == 'DeleteModel':
            for key in list(self.fields):
                if key[0] == desc[1]:
                    del self.fields[key]

            self.tables.pop(desc[1], None)
        elif kind == 'DeleteApplication':
            self.fields.clear()
            self.tables.clear()


def check_rows(start_sig, final_sig, muts, start_rows, final_rows):
    """Evaluate the C02 clauses.  Returns ``(failures, checked_cells)``.

    ``start_rows`` / ``final_rows``: harness ``rows`` dumps.
    """
    tracker = RowTracker(start_sig)

    for desc in muts:
        tracker.apply(desc)

    failures = []
    checked = 0

    def table_rows(dump, table):
        data = dump.get(table)

        if data is None:
            return None

        cols = data['columns']
        result = OrderedDict()

        for row in data['rows']:
            item = dict(zip(cols, row))
            result[item.get('id', len(result))] = item

        return result

    # -- surviving tables keep their rows ---------------------------------
    for model, start_table in tracker.tables.items():
        if model not in final_sig:
            raise RuntimeError('tracker/signature mismatch: model %s'
                               % model)

        final_table = final_sig[model]['meta']['db_table']
        before = table_rows(start_rows, start_table) or OrderedDict()
        after = table_rows(final_rows, final_table)

        if after is None:
            failures.append(('row-count', {
                'table': final_table, 'problem': 'table missing',
                'model': model}))
            continue

        if list(before) != list(after):
            failures.append(('row-count', {
                'table': final_table, 'ids_before': list(before),
                'ids_after': list(after)}))

    # -- cell values --------------------------------------------------------
    for (model, fname), info in sorted(tracker.fields.items()):
        if model not in final_sig or fname not in final_sig[model]['fields']:
            raise RuntimeError('tracker/signature mismatch: %s.%s'
                               % (model, fname))

        finfo = final_sig[model]['fields'][fname]
        final_table = final_sig[model]['meta']['db_table']
        col = _field_col(fname, finfo)

        if col is None:
            # many-to-many: the link rows must survive (column names may
            # legitimately change, compare the value tuples).
            if info.get('m2m_origin'):
                final_m2m = _m2m_table(final_sig[model], fname, finfo)
                before = start_rows.get(info['m2m_origin'])
                after = final_rows.get(final_m2m)

                if before is None:
                    continue

                checked += len(before['rows'])

                if after is None:
                    failures.append(('m2m-rows', {
                        'field': '%s.%s' % (model, fname),
                        'problem': 'table %s missing' % final_m2m,
                        'tables': sorted(final_rows)}))
                elif (sorted(map(list, before['rows'])) !=
                      sorted(map(list, after['rows']))):
                    failures.append(('m2m-rows', {
                        'field': '%s.%s' % (model, fname),
                        'before': before['rows'], 'after': after['rows']}))

            continue

        after = table_rows(final_rows, final_table)

        if after is None:
            continue   # reported as row-count above

        start_table = tracker.tables[model]
        before = table_rows(start_rows, start_table) or OrderedDict()

        for row_id, old_row in before.items():
            if row_id not in after:
                continue   # reported as row-count

            new_row = after[row_id]

            if col not in new_row:
                failures.append(('column-present', {
                    'table': final_table, 'column': col,
                    'columns': sorted(new_row)}))
                break

            actual = new_row[col]
            checked += 1

            if info['added']:
                expected = info['new_value']
                clause = 'added-column-initial'
            else:
                expected = old_row[info['origin'][1]]
                clause = 'surviving-value-unchanged'

            for fix in info['nullfix']:
                if expected is None:
                    expected = fix

                    if not info['added']:
                        clause = 'null-replaced-by-initial'

            equal = (_loose_eq if info['typechanged'] else _veq)(actual,
                                                                 expected)

            if not equal:
                failures.append((clause, {
                    'table': final_table, 'column': col, 'row_id': row_id,
                    'expected': expected, 'actual': actual,
                    'field': '%s.%s' % (model, fname)}))
                break

    return failures, checked


# ---------------------------------------------------------------------------
# C01 - evolved schema equals the schema of freshly created models
# ---------------------------------------------------------------------------

_Z_MODEL = {'fields': OrderedDict([
    ('z1', ['CharField', {'max_length': 8, 'unique': True}]),
    ('z2', ['IntegerField', {'db_index': True}]),
]), 'meta': {'unique_together': [['z1', 'z2']]}}


def c01_base(rich):
    """Start models of the C01 catalogue: P (target), T (evolved), Z."""
    fields = OrderedDict([
        ('c', ['CharField', {'max_length': 20}]),
        ('i', ['IntegerField', {'null': True}]),
        ('u', ['CharField', {'max_length': 10, 'unique': True}]),
        ('x', ['IntegerField', {'db_index': True}]),
    ])
    meta = OrderedDict()

    if rich:
        fields['fk'] = ['ForeignKey', {'to': 'P', 'null': True}]
        fields['m'] = ['ManyToManyField', {'to': 'P'}]
        meta['unique_together'] = [['c', 'i']]
        meta['index_together'] = [['c', 'x']]
        meta['indexes'] = [
            {'fields': ['i'], 'name': 'ix_i'},
            {'fields': ['c'], 'name': 'ix_cond',
             'condition': {'__Q__': {'i__gte': 1}}},
        ]
        meta['constraints'] = [
            {'type': {'__cls__': 'UniqueConstraint'}, 'name': 'uq_xc',
             'fields': ['x', 'c']},
            {'type': {'__cls__': 'CheckConstraint'}, 'name': 'ck_i',
             'check': {'__Q__': {'i__gte': 0}}},
        ]

    return OrderedDict([
        ('P', {'fields': OrderedDict([
            ('name', ['CharField', {'max_length': 20, 'unique': True}]),
        ]), 'meta': {}}),
        ('T', {'fields': fields, 'meta': meta}),
        ('Z', copy.deepcopy(_Z_MODEL)),
    ])


_C01_TYPES = OrderedDict([
    ('CharField', {'max_length': 10}),
    ('TextField', {}),
    ('IntegerField', {}),
    ('BigIntegerField', {}),
    ('PositiveIntegerField', {}),
    ('BooleanField', {}),
    ('DecimalField', {'max_digits': 6, 'decimal_places': 2}),
    ('DateTimeField', {}),
    ('ForeignKey', {'to': 'P'}),
    ('OneToOneField', {'to': 'P'}),
    ('ManyToManyField', {'to': 'P'}),
])

_C01_OPTIONS = [
    {}, {'null': True}, {'db_index': True}, {'unique': True},
    {'db_column': 'col_n'}, {'null': True, 'db_index': True},
    {'null': True, 'unique': True},
]


def _field_variants(quick):
    """(type, kwargs) for the field matrix."""
    for ftype, base_kwargs in _C01_TYPES.items():
        if ftype == 'ManyToManyField':
            yield ftype, dict(base_kwargs)
            yield ftype, dict(base_kwargs, db_table='custom_m2m')
            continue

        for option in _C01_OPTIONS:
            if ftype == 'OneToOneField' and 'unique' in option:
                continue

            if ftype == 'TextField' and option.get('unique'):
                pass

            yield ftype, dict(base_kwargs, **option)


def _add_desc(model, name, ftype, kwargs):
    kwargs = dict(kwargs)
    target = kwargs.pop('to', None)

    if target:
        kwargs['related_model'] = 'tests.%s' % target

    if ftype != 'ManyToManyField' and not kwargs.get('null'):
        kwargs['initial'] = _TYPE_INITIAL[ftype]

    return ['AddField', model, name, ftype, kwargs]


def _with_field(spec, model, name, ftype, kwargs):
    spec = copy.deepcopy(spec)
    spec[model]['fields'][name] = [ftype, dict(kwargs)]
    return spec


def _c01_catalogue(tier):
    quick = tier == 'quick'
    out = []

    def add(family, spec, muts, **extra):
        out.append(dict({'family': family, 'spec': spec,
                         'rows': auto_rows(spec, 1, safe=True),
                         'muts': muts,
                         'bystanders': ['Z']}, **extra))

    for rich in (False, True):
        base = c01_base(rich)
        tag = 'rich' if rich else 'plain'

        # -- AddField / DeleteField / RenameField matrix --------------------
        for ftype, kwargs in _field_variants(quick):
            add('add-' + tag, base, [_add_desc('T', 'n', ftype, kwargs)])
            with_n = _with_field(base, 'T', 'n', ftype, kwargs)
            add('delete-' + tag, with_n, [['DeleteField', 'T', 'n']])

            if ftype == 'ManyToManyField':
                add('rename-' + tag, with_n,
                    [['RenameField', 'T', 'n', 'renamed', {}]])
                add('rename-' + tag, with_n,
                    [['RenameField', 'T', 'n', 'renamed',
                      {'db_table': 'other_m2m'}]])
            else:
                add('rename-' + tag, with_n,
                    [['RenameField', 'T', 'n', 'renamed', {}]])

                if not quick or not rich:
                    add('rename-' + tag, with_n,
                        [['RenameField', 'T', 'n', 'renamed',
                          {'db_column': 'col_renamed'}]])

        # -- ChangeField toggles ------------------------------------------
        for ftype, base_kwargs in _C01_TYPES.items():
            if ftype == 'ManyToManyField':
                with_n = _with_field(base, 'T', 'n', ftype, base_kwargs)
                add('change-' + tag, with_n,
                    [['ChangeField', 'T', 'n', {'db_table': 'moved_m2m'}]])
                continue

            toggles = [
                ({'null': True}, {'null': False,
                                  'initial': _TYPE_INITIAL[ftype]}),
                ({}, {'null': True}),
                ({}, {'db_index': True}),
                ({'db_index': True}, {'db_index': False}),
                ({}, {'db_column': 'col_x'}),
                ({'db_column': 'col_x'}, {'db_column': 'col_y'}),
            ]

            if ftype != 'OneToOneField':
                toggles += [({}, {'unique': True}),
                            ({'unique': True}, {'unique': False}),
                            ({'db_index': True}, {'unique': True}),
                            ({'unique': True, 'db_index': True},
                             {'unique': False})]

            if ftype == 'CharField':
                toggles += [({}, {'max_length': 30}),
                            ({}, {'max_length': 5}),
                            ({'null': True},
                             {'max_length': 30, 'null': False,
                              'initial': 'both'})]
            elif ftype == 'DecimalField':
                toggles += [({}, {'max_digits': 9}),
                            ({}, {'decimal_places': 1}),
                            ({}, {'max_digits': 10, 'decimal_places': 4})]

            for start_opt, change in toggles:
                if quick and rich and ftype not in ('CharField',
                                                    'IntegerField',
                                                    'ForeignKey'):
                    continue

                with_n = _with_field(base, 'T', 'n', ftype,
                                     dict(base_kwargs, **start_opt))
                add('change-' + tag, with_n,
                    [['ChangeField', 'T', 'n', change]])

        # -- type changes -----------------------------------------------------
        type_changes = [
            ('CharField', {'max_length': 10}, 'TextField', {}),
            ('TextField', {}, 'CharField', {'max_length': 40}),
            ('IntegerField', {}, 'BigIntegerField', {}),
            ('IntegerField', {}, 'CharField', {'max_length': 12}),
            ('IntegerField', {'null': True}, 'PositiveIntegerField',
             {'null': True}),
            ('BooleanField', {}, 'IntegerField', {}),
            ('DecimalField', {'max_digits': 6, 'decimal_places': 2},
             'CharField', {'max_length': 20}),
            ('CharField', {'max_length': 10, 'db_index': True},
             'TextField', {'db_index': True}),
        ]

        for old_type, old_kwargs, new_type, new_kwargs in type_changes:
            with_n = _with_field(base, 'T', 'n', old_type, old_kwargs)
            add('type-' + tag, with_n,
                [['ChangeField', 'T', 'n',
                  dict(new_kwargs, field_type=new_type)]])

    # -- ChangeMeta matrix ---------------------------------------------------
    q_gte = {'__Q__': {'i__gte': 1}}
    meta_values = {
        'unique_together': [[], [['c', 'i']], [['c', 'i'], ['u', 'x']],
                            [['i', 'c']], [['c', 'fk']]],
        'index_together': [[], [['c', 'i']], [['c', 'i'], ['u', 'x']],
                           [['x', 'c']]],
        'indexes': [[], [{'fields': ['c'], 'name': 'ix_one'}],
                    [{'fields': ['c', 'i'], 'name': 'ix_two'}],
                    [{'fields': ['c'], 'name': 'ix_cond',
                      'condition': q_gte}],
                    [{'fields': ['c'], 'name': 'ix_one'},
                     {'fields': ['x'], 'name': 'ix_cond',
                      'condition': q_gte}],
                    [{'fields': ['c']}]],
        'constraints': [[],
                        [{'type': {'__cls__': 'UniqueConstraint'},
                          'name': 'uq_one', 'fields': ['c', 'x']}],
                        [{'type': {'__cls__': 'UniqueConstraint'},
                          'name': 'uq_cond', 'fields': ['c'],
                          'condition': q_gte}],
                        [{'type': {'__cls__': 'CheckConstraint'},
                          'name': 'ck_one', 'check': {'__Q__':
                                                      {'x__gte': 0}}}],
                        [{'type': {'__cls__': 'UniqueConstraint'},
                          'name': 'uq_one', 'fields': ['c', 'x']},
                         {'type': {'__cls__': 'CheckConstraint'},
                          'name': 'ck_one', 'check': {'__Q__':
                                                      {'x__gte': 0}}}]],
    }

    for others in (False, True):
        for prop, values in meta_values.items():
            for old, new in itertools.permutations(values, 2):
                base = c01_base(False)
                base['T']['fields']['fk'] = ['ForeignKey',
                                             {'to': 'P', 'null': True}]

                if others:
                    # every OTHER Meta option is set as well
                    for other_prop, other_values in meta_values.items():
                        if other_prop != prop:
                            base['T']['meta'][other_prop] = \
                                copy.deepcopy(other_values[1])

                if old:
                    base['T']['meta'][prop] = copy.deepcopy(old)

                add('meta-%s-%s' % (prop, 'others' if others else 'alone'),
                    base, [['ChangeMeta', 'T', prop, copy.deepcopy(new)]])

    # -- model level -----------------------------------------------------------
    for rich in (False, True):
        base = c01_base(rich)
        tag = 'rich' if rich else 'plain'
        add('model-' + tag, base, [['RenameModel', 'T', 'T2', 'tests_t2']])
        add('model-' + tag, base, [['RenameModel', 'T', 'T2', 'tests_t']])
        add('model-' + tag, base, [['RenameModel', 'T', 'T2', 'custom_t']])
        add('model-' + tag, base, [['RenameModel', 'P', 'P2', 'tests_p2']])
        add('model-' + tag, base, [['RenameModel', 'P', 'P2', 'tests_p']])
        add('model-' + tag, base, [['DeleteModel', 'T']])
        add('model-' + tag, base, [['DeleteModel', 'T'],
                                   ['DeleteModel', 'P']])
        add('model-' + tag, base, [['DeleteApplication']], bystanders=[])

        custom = copy.deepcopy(base)
        custom['T']['meta']['db_table'] = 'my_t'
        add('model-' + tag, custom, [['RenameModel', 'T', 'T2', 'my_t']])
        add('model-' + tag, custom, [['RenameModel', 'T', 'T2', 'tests_t2']])
        add('model-' + tag, custom,
            [_add_desc('T', 'n', 'IntegerField', {})])

        o2o = _with_field(base, 'T', 'one', 'OneToOneField',
                          {'to': 'P', 'null': True})
        add('model-' + tag, o2o, [['RenameModel', 'P', 'P2', 'tests_p2']])
        add('model-' + tag, o2o, [['RenameModel', 'T', 'T2', 'tests_t2']])

    return out


def _c01_hinted(tier):
    """(start, target) pairs; the mutations come from the library's Diff."""
    base = c01_base(False)
    variants = OrderedDict()
    variants['base'] = base

    def variant(name, fn):
        spec = copy.deepcopy(base)
        fn(spec['T'])
        variants[name] = spec

    variant('plus-int', lambda t: t['fields'].__setitem__(
        'n', ['IntegerField', {'null': True}]))
    variant('plus-char-default', lambda t: t['fields'].__setitem__(
        'n', ['CharField', {'max_length': 12, 'default': 'dflt'}]))
    variant('plus-fk', lambda t: t['fields'].__setitem__(
        'n', ['ForeignKey', {'to': 'P', 'null': True}]))
    variant('plus-m2m', lambda t: t['fields'].__setitem__(
        'n', ['ManyToManyField', {'to': 'P'}]))
    variant('minus-i', lambda t: t['fields'].pop('i'))
    variant('i-notnull', lambda t: t['fields'].__setitem__(
        'i', ['IntegerField', {}]))
    variant('c-indexed', lambda t: t['fields'].__setitem__(
        'c', ['CharField', {'max_length': 20, 'db_index': True}]))
    variant('c-unique-longer', lambda t: t['fields'].__setitem__(
        'c', ['CharField', {'max_length': 40, 'unique': True}]))
    variant('u-plain', lambda t: t['fields'].__setitem__(
        'u', ['CharField', {'max_length': 10}]))
    variant('x-plain-col', lambda t: t['fields'].__setitem__(
        'x', ['IntegerField', {'db_column': 'x_col'}]))
    variant('c-text', lambda t: t['fields'].__setitem__(
        'c', ['TextField', {}]))
    variant('ut', lambda t: t['meta'].__setitem__(
        'unique_together', [['c', 'i']]))
    variant('it-ix', lambda t: t['meta'].update(
        index_together=[['c', 'x']],
        indexes=[{'fields': ['i'], 'name': 'ix_i'}]))
    variant('constraints', lambda t: t['meta'].__setitem__(
        'constraints', [
            {'type': {'__cls__': 'UniqueConstraint'}, 'name': 'uq_xc',
             'fields': ['x', 'c']},
            {'type': {'__cls__': 'CheckConstraint'}, 'name': 'ck_x',
             'check': {'__Q__': {'x__gte': 0}}}]))
    variant('no-T', lambda t: None)
    del variants['no-T']['T']

    names = list(variants)
    out = []

    for a, b in itertools.permutations(names, 2):
        if a == 'no-T':
            continue   # creating models is not an evolution

        out.append({'family': 'hinted', 'spec': variants[a],
                    'rows': auto_rows(variants[a], 1, safe=True),
                    'target': variants[b], 'pair': [a, b],
                    'muts': None, 'bystanders': ['Z']})

    return out


def hinted_mutations(spec, target):
    """The library's own hinted evolution from spec to target, as descs.

    Placeholder initial values (``<<USER VALUE REQUIRED>>``) are replaced
    by a value fitting the field type, as a developer would.
    """
    _setup()

    from django_evolution.diff import Diff
    from django_evolution.placeholders import BasePlaceholder

    try:
        with warnings.catch_warnings():
            warnings.simplefilter('ignore')
            start_map = H.build_models(dec_spec(spec))
            start_sig = _orig_project_sig_fn[0](start_map)
            end_map = H.build_models(dec_spec(target))
            end_sig = _orig_project_sig_fn[0](end_map)
            diff = Diff(start_sig, end_sig)
            mutations = diff.evolution().get(H.APP_LABEL, [])
            descs = []

            for mutation in mutations:
                initial = getattr(mutation, 'initial', None)

                if isinstance(initial, BasePlaceholder):
                    field_type = getattr(mutation, 'field_type', None)

                    if field_type is None:
                        field_type = (
                            end_sig.get_app_sig(H.APP_LABEL)
                            .get_model_sig(mutation.model_name)
                            .get_field_sig(mutation.field_name).field_type)

                    mutation.initial = _TYPE_INITIAL.get(
                        field_type.__name__, 1)

                descs.append(desc_of(mutation))

            return descs
    finally:
        H._purge_registry()


def _is_crash(error):
    """An internal error (not a legitimate rejection, not a data error)."""
    return error is not None and error['phase'] in ('simulate', 'sql') and \
        not _is_rejection(error)


def eval_C01(sc):
    spec, rows = sc['spec'], sc.get('rows')
    out = {'nontrivial': False, 'skipped': None, 'failures': [],
           'summary': {}}
    failures = out['failures']
    target = sc.get('target')
    muts = sc.get('muts')

    if muts is None:
        muts = hinted_mutations(spec, target)
        out['summary']['hinted_muts'] = muts

        if not muts:
            out['skipped'] = 'empty-hint'
            return out

        if any(m[0].startswith('<') or '__repr__' in _canon(m)
               for m in muts):
            out['skipped'] = 'hint-not-representable'
            return out

    ok, error = sim_valid(spec, muts)

    if not ok:
        out['skipped'] = 'simulation-invalid:%s' % error['class']
        return out

    groups = [muts] if sc.get('batched', True) else [[m] for m in muts]
    result = run(spec, groups, rows, end_spec=target)
    error = result['error']

    if error is not None:
        if error['phase'] == 'setup':
            out['skipped'] = 'setup-error:%s' % error['message'][:80]
            return out

        if _is_rejection(error):
            out['skipped'] = 'rejected:%s' % error['class']
            return out

        out['nontrivial'] = True

        if error['phase'] == 'execute':
            failures.append(('sql-executes', {'error': _err_brief(error),
                                              'muts': muts}))
        else:
            failures.append(('accepted-evolution-crashes', {
                'error': _err_brief(error), 'muts': muts}))

        return out

    out['nontrivial'] = True

    # -- the evolved models, created from scratch ---------------------------
    try:
        if target is not None:
            expected = H.fresh_schema(dec_spec(target))
        else:
            expected = fresh_schema_of_sig(result['project_sig'])
    except Exception as e:
        out['skipped'] = 'evolved-models-not-creatable:%s' % (
            '%s: %s' % (type(e).__name__, e))[:120]
        out['nontrivial'] = False
        return out

    bystander_tables = set()

    for name in sc.get('bystanders') or []:
        if name in spec:
            bystander_tables.add((spec[name].get('meta') or {}).get(
                'db_table', 'tests_%s' % name.lower()))

    diff = schema_diff(result['schema'], expected)

    if diff:
        failures.append(('schema-equals-fresh', dict(
            {'diff': diff, 'muts': muts},
            **explain_schema_diff(diff, result['final_sig'],
                                  list(result['rebuilds'])))))

    if target is not None and result['sig_matches_end'] is not True:
        failures.append(('hinted-signature-reaches-target', {
            'sig_diff': result['sig_diff'], 'muts': muts}))

    # -- untouched tables ----------------------------------------------------
    for table in sorted(bystander_tables):
        before = result['start_schema'].get(table)
        after = result['schema'].get(table)

        def essence(info):
            return info and {'create_sql': info['create_sql'],
                             'index_sql': sorted(info['index_sql']),
                             'columns': info['columns']}

        if essence(before) != essence(after):
            failures.append(('bystander-untouched', {
                'table': table, 'before': essence(before),
                'after': essence(after)}))

    out['summary'].update({
        'family': sc.get('family'),
        'rebuilds': dict(result['rebuilds']),
        'failed_clauses': sorted(set(c for c, _o in failures)),
    })

    return out


_EVALS['C01'] = eval_C01

KNOWN_C01 = []

RULE_C01 = (
    'Catalogue over start models P(name unique) <- T(c char, i int null, '
    'u char unique, x int db_index [, fk->P, m2m->P, unique_together, '
    'index_together, Meta.indexes incl. a condition, Unique+Check '
    'constraints]) + bystander Z, one row per table: AddField / '
    'DeleteField / RenameField(+db_column/db_table) for 11 field types x '
    '7 option sets, ChangeField toggles (null, db_index, unique, '
    'db_column, max_length, max_digits/decimal_places, m2m db_table) and '
    'type changes, all ordered (old,new) pairs of 4-6 values for each of '
    'unique_together/index_together/indexes/constraints alone and with the '
    'other Meta options set, RenameModel (new/same/custom db_table, with '
    'inbound and outbound FK/O2O/M2M), DeleteModel, DeleteApplication; '
    'hinted evolutions (library Diff) for all ordered pairs of 16 model '
    'variants; plus sequences of the C03 space run as one batch.  Expected '
    'schema = tables created by Django for models rebuilt from the final '
    'signature (hinted: for the target models); compared per table: '
    'columns {name: type, notnull, pk}, multiset of (unique, columns) '
    'indexes, partial index conditions, CHECK clauses, foreign keys.  '
    'Skipped: rejected by simulation / EvolutionNotImplementedError, or '
    'evolved models Django itself refuses to create.  Non-trivial = the '
    'evolution was accepted and produced SQL that was executed.'
)


def _c01_scenarios(tier, seed):
    rng = random.Random(seed)
    scenarios = _c01_catalogue(tier) + _c01_hinted(tier)
    groups = ['catalogue+hinted: %d' % len(scenarios)]

    if tier == 'quick':
        seqs = [s for s in enum_sequences(SEQ_SPEC, 'core', 2)
                if len(s) == 2]
        seqs = rng.sample(seqs, 150)
        groups.append('sample of core len 2 sequences: %d' % len(seqs))
    else:
        seqs = enum_sequences(SEQ_SPEC, 'core', 2)
        full = enum_sequences(SEQ_SPEC, 'full', 2)
        groups.append('exhaustive core<=2: %d, full<=2: %d'
                      % (len(seqs), len(full)))
        seqs = seqs + full
        more = [random_sequence(SEQ_SPEC, 'full', rng.randint(3, 8), rng)
                for _i in range(1500)]
        groups.append('random full len 3-8: %d' % len(more))
        seqs = _dedup(seqs + more)

    rows1 = OrderedDict((name, table_rows[:1])
                        for name, table_rows in SEQ_ROWS.items())

    for seq in seqs:
        scenarios.append({'family': 'sequence', 'spec': SEQ_SPEC,
                          'rows': rows1, 'muts': seq, 'bystanders': ['Z']})

        if tier != 'quick' and len(seq) >= 2:
            scenarios.append({'family': 'sequence-unbatched',
                              'spec': SEQ_SPEC, 'rows': rows1, 'muts': seq,
                              'bystanders': ['Z'], 'batched': False})

    return scenarios, groups


def suite_C01(tier='quick', seed=0):
    t0 = time.time()
    _setup()
    scenarios, groups = _c01_scenarios(tier, seed)

    return _collect('C01', scenarios, KNOWN_C01,
                    RULE_C01 + '  Scope: ' + '; '.join(groups), True, t0,
                    budget=55 if tier == 'quick' else 14 * 60)


def replay_C01(inputs):
    _setup()
    out = _eval_task(('C01', inputs))

    return {'reproduced': bool(out['failures']),
            'clauses': sorted(set(c for c, _o in out['failures'])),
            'failures': H.to_jsonable(out['failures']),
            'skipped': out.get('skipped'),
            'internal_error': out.get('internal_error')}


# ---------------------------------------------------------------------------
# C02 - evolutions preserve existing row data
# ---------------------------------------------------------------------------

#: All nullable: any subset/order of null->not-null changes is possible.
INIT_SPEC = OrderedDict([
    ('T', {'fields': OrderedDict([
        ('f1', ['CharField', {'max_length': 20, 'null': True}]),
        ('f2', ['IntegerField', {'null': True}]),
        ('f3', ['CharField', {'max_length': 20, 'null': True}]),
        ('keep', ['CharField', {'max_length': 20}]),
    ]), 'meta': {}}),
    ('Z', copy.deepcopy(_Z_MODEL)),
])

_INIT_ALPHABET = [
    ['ChangeField', 'T', 'f1', {'null': False, 'initial': "F1'init"}],
    ['ChangeField', 'T', 'f2', {'null': False, 'initial': 222}],
    ['ChangeField', 'T', 'f3', {'null': False, 'initial': 'F3 50%'}],
    ['AddField', 'T', 'n1', 'CharField', {'max_length': 20,
                                          'initial': 'N1"init'}],
    ['AddField', 'T', 'n2', 'IntegerField', {'initial': -999}],
    ['AddField', 'T', 'n3', 'CharField', {'max_length': 20, 'null': True}],
    ['AddField', 'T', 'n4', 'CharField',
     {'max_length': 20, 'initial': {'__callable__': "'sql' || 'expr'",
                                    'value': 'sqlexpr'}}],
    ['AddField', 'T', 'n5', 'BooleanField', {'initial': False}],
    ['AddField', 'T', 'n6', 'CharField', {'max_length': 20, 'initial': ''}],
]


def _init_rows(count):
    rows = []
    f1 = ['one', None, '', "q'uote", None, '100%']
    f2 = [1, None, 0, None, -2147483648, 2147483647]
    f3 = [None, 'three', None, '%s', 'x"y', None]

    for i in range(count):
        rows.append({'f1': f1[i % 6], 'f2': f2[i % 6], 'f3': f3[i % 6],
                     'keep': 'keep-%d' % i})

    return OrderedDict([('T', rows),
                        ('Z', [{'z1': 'zz', 'z2': 5}] if count else [])])


#: Every scalar field type with boundary values.
TYPES_SPEC = OrderedDict([
    ('P', {'fields': OrderedDict([
        ('name', ['CharField', {'max_length': 20}]),
    ]), 'meta': {}}),
    ('W', {'fields': OrderedDict([
        ('ch', ['CharField', {'max_length': 30}]),
        ('tx', ['TextField', {'null': True}]),
        ('it', ['IntegerField', {'null': True}]),
        ('bi', ['BigIntegerField', {}]),
        ('po', ['PositiveIntegerField', {}]),
        ('bo', ['BooleanField', {}]),
        ('de', ['DecimalField', {'max_digits': 8, 'decimal_places': 2,
                                 'null': True}]),
        ('dt', ['DateTimeField', {'null': True}]),
        ('fk', ['ForeignKey', {'to': 'P', 'null': True}]),
        ('mm', ['ManyToManyField', {'to': 'P'}]),
    ]), 'meta': {}}),
    ('Z', copy.deepcopy(_Z_MODEL)),
])

_TYPES_MUTS = [
    [['AddField', 'W', 'n', 'IntegerField', {'initial': 11}]],
    [['AddField', 'W', 'n', 'CharField', {'max_length': 9, 'null': True}]],
    [['AddField', 'W', 'n', 'ForeignKey',
      {'null': True, 'related_model': 'tests.P'}]],
    [['AddField', 'W', 'n', 'ManyToManyField',
      {'related_model': 'tests.P'}]],
    [['DeleteField', 'W', 'ch']],
    [['DeleteField', 'W', 'fk']],
    [['DeleteField', 'W', 'mm']],
    [['ChangeField', 'W', 'tx', {'null': False, 'initial': "t'%x"}]],
    [['ChangeField', 'W', 'it', {'null': False, 'initial': 0}]],
    [['ChangeField', 'W', 'de', {'null': False, 'initial': 1.25}]],
    [['ChangeField', 'W', 'dt', {'null': False,
                                 'initial': '2001-02-03 04:05:06'}]],
    [['ChangeField', 'W', 'ch', {'max_length': 5}]],
    [['ChangeField', 'W', 'ch', {'max_length': 50, 'db_index': True}]],
    [['ChangeField', 'W', 'ch', {'unique': True}]],
    [['ChangeField', 'W', 'bi', {'db_column': 'big_col'}]],
    [['ChangeField', 'W', 'de', {'max_digits': 12, 'decimal_places': 4}]],
    [['ChangeField', 'W', 'it', {'field_type': 'BigIntegerField',
                                 'null': True}]],
    [['ChangeField', 'W', 'ch', {'field_type': 'TextField'}]],
    [['RenameField', 'W', 'ch', 'ch2', {}]],
    [['RenameField', 'W', 'bi', 'bi2', {'db_column': 'bi_col'}]],
    [['RenameField', 'W', 'fk', 'parent', {}]],
    [['RenameField', 'W', 'mm', 'links', {}]],
    [['RenameField', 'W', 'mm', 'links', {'db_table': 'w_links'}]],
    [['ChangeField', 'W', 'mm', {'db_table': 'w_moved'}]],
    [['ChangeMeta', 'W', 'unique_together', [['ch', 'bi']]]],
    [['ChangeMeta', 'W', 'indexes', [{'fields': ['it'], 'name': 'w_ix'}]]],
    [['ChangeMeta', 'W', 'constraints',
      [{'type': {'__cls__': 'CheckConstraint'}, 'name': 'w_ck',
        'check': {'__Q__': {'po__gte': 0}}}]]],
    [['RenameModel', 'W', 'W2', 'tests_w2']],
    [['RenameModel', 'W', 'W2', 'tests_w']],
    [['RenameModel', 'P', 'P2', 'tests_p2']],
    [['DeleteModel', 'Z']],
    [['RenameModel', 'W', 'W2', 'tests_w2'],
     ['AddField', 'W2', 'n', 'IntegerField', {'initial': 11}]],
    [['RenameField', 'W', 'ch', 'ch2', {}],
     ['ChangeField', 'W', 'ch2', {'max_length': 40}],
     ['DeleteField', 'W', 'tx']],
    [['AddField', 'W', 'n', 'IntegerField', {'null': True}],
     ['ChangeField', 'W', 'n', {'null': False, 'initial': 77}]],
]


def eval_C02(sc):
    spec, rows, muts = sc['spec'], sc.get('rows'), sc['muts']
    out = {'nontrivial': False, 'skipped': None, 'failures': [],
           'summary': {}}

    ok, error = sim_valid(spec, muts)

    if not ok:
        out['skipped'] = 'simulation-invalid:%s' % error['class']
        return out

    groups = [muts] if sc.get('batched', True) else [[m] for m in muts]
    result = run(spec, groups, rows)
    error = result['error']

    if error is not None:
        # Rejections, crashes and failing SQL are C01/C03 matters; nothing
        # was evolved, so there is nothing to compare.
        out['skipped'] = 'not-evolved:%s:%s' % (error['phase'],
                                                error['class'])
        return out

    start = start_dump(spec, rows)
    failures, checked = check_rows(result['start_sig'], result['final_sig'],
                                   muts, start['rows'], result['rows'])
    out['nontrivial'] = checked > 0

    context = {
        'sql': [s for g in result['sql'] for s in g
                if isinstance(s, str) and
                (s.startswith('INSERT INTO') or s.startswith('UPDATE'))][:6],
        'batched': sc.get('batched', True),
    }

    for clause, observed in failures:
        out['failures'].append((clause, dict(observed, **context)))

    out['summary'] = {
        'family': sc.get('family'),
        'cells_checked': checked,
        'rebuilds': dict(result['rebuilds']),
        'failed_clauses': sorted(set(c for c, _o in failures)),
    }

    return out


_EVALS['C02'] = eval_C02

KNOWN_C02 = []

RULE_C02 = (
    'Families: (init) model T(f1 char null, f2 int null, f3 char null, '
    'keep) with 0/1/6 rows incl. NULLs, empty strings, quotes, percent '
    'signs, INT_MIN/INT_MAX: ALL ordered selections of 1-3 (thorough: '
    '1-4) mutations out of 9 [3x ChangeField(null=False, initial), 6x '
    'AddField(initial str/int/bool/empty/callable/NULL)], as one batch and '
    'one at a time; (types) model W with Char/Text/Integer/BigInteger/'
    'PositiveInteger/Boolean/Decimal/DateTime/FK/M2M columns, 6 boundary '
    'rows, 34 rebuild/rename/type-change/RenameModel scenarios; (rich) '
    'the C01 rich model with 4 rows under every catalogue mutation; '
    '(sequence) sequences of the C03 space with 3+2+2 rows.  The oracle '
    'tracks every field identity through the mutations on its own '
    '(RowTracker) and compares raw SQLite values per primary key: '
    'surviving-value-unchanged, row-count, m2m-rows, added-column-initial, '
    'null-replaced-by-initial.  Scenarios the library rejects or whose SQL '
    'fails are skipped.  Non-trivial = at least one pre-existing cell was '
    'compared.'
)


def _c02_scenarios(tier, seed):
    rng = random.Random(seed)
    quick = tier == 'quick'
    scenarios = []
    groups = []

    # -- init family -----------------------------------------------------------
    max_k = 3 if quick else 4
    count = 0

    for k in range(1, max_k + 1):
        perms = list(itertools.permutations(range(len(_INIT_ALPHABET)), k))

        if quick and k == 3:
            # All orderings of every 3-subset that has >= 2 parameterised
            # initial values would be 504; keep those touching >= 1
            # ChangeField and >= 1 AddField (the order-sensitive ones).
            perms = [p for p in perms
                     if any(i < 3 for i in p) and any(i >= 3 for i in p)]
            perms = rng.sample(perms, 220)
        elif k == 4:
            perms = rng.sample(perms, 1200)

        for perm in perms:
            muts = [copy.deepcopy(_INIT_ALPHABET[i]) for i in perm]
            row_counts = [6] if (quick and k == 3) else [6, 1] \
                if quick else [6, 1, 0]

            for n in row_counts:
                scenarios.append({'family': 'init', 'spec': INIT_SPEC,
                                  'rows': _init_rows(n), 'muts': muts})
                count += 1

            if k >= 2 and (not quick or k == 2):
                scenarios.append({'family': 'init-unbatched',
                                  'spec': INIT_SPEC, 'rows': _init_rows(6),
                                  'muts': muts, 'batched': False})
                count += 1

    groups.append('init: %d' % count)

    # -- types family ----------------------------------------------------------
    type_rows = auto_rows(TYPES_SPEC, 6)

    for muts in _TYPES_MUTS:
        scenarios.append({'family': 'types', 'spec': TYPES_SPEC,
                          'rows': type_rows, 'muts': copy.deepcopy(muts)})

        if len(muts) > 1:
            scenarios.append({'family': 'types', 'spec': TYPES_SPEC,
                              'rows': type_rows,
                              'muts': copy.deepcopy(muts),
                              'batched': False})

    groups.append('types: %d' % len(_TYPES_MUTS))

    # -- the C01 catalogue on the rich model with 4 rows -----------------------
    count = 0

    for sc in _c01_catalogue(tier):
        if sc['family'].endswith('-plain') and quick:
            continue

        if sc['family'].startswith('meta-') and quick and count % 3:
            count += 1
            continue

        scenarios.append({'family': 'catalogue:' + sc['family'],
                          'spec': sc['spec'],
                          'rows': auto_rows(sc['spec'], 4, safe=True),
                          'muts': sc['muts']})
        count += 1

    groups.append('catalogue with rows: %d' % count)

    # -- sequences -----------------------------------------------------------
    if quick:
        seqs = [s for s in enum_sequences(SEQ_SPEC, 'core', 2)]
        seqs = rng.sample(seqs, 250)
        seqs += [random_sequence(SEQ_SPEC, 'full', rng.randint(3, 8), rng)
                 for _i in range(80)]
    else:
        seqs = enum_sequences(SEQ_SPEC, 'core', 2)
        seqs += rng.sample(enum_sequences(SEQ_SPEC, 'core', 3), 2500)
        seqs += enum_sequences(SEQ_SPEC, 'full', 2)
        seqs += [random_sequence(SEQ_SPEC, 'full', rng.randint(3, 12), rng)
                 for _i in range(2500)]

    seqs = _dedup(seqs)
    groups.append('sequences: %d' % len(seqs))

    for i, seq in enumerate(seqs):
        scenarios.append({'family': 'sequence', 'spec': SEQ_SPEC,
                          'rows': SEQ_ROWS, 'muts': seq})

        if len(seq) >= 2 and (not quick or i % 3 == 0):
            scenarios.append({'family': 'sequence-unbatched',
                              'spec': SEQ_SPEC, 'rows': SEQ_ROWS,
                              'muts': seq, 'batched': False})

    return scenarios, groups


def suite_C02(tier='quick', seed=0):
    t0 = time.time()
    _setup()
    scenarios, groups = _c02_scenarios(tier, seed)

    return _collect('C02', scenarios, KNOWN_C02,
                    RULE_C02 + '  Scope: ' + '; '.join(groups),
                    True, t0, budget=55 if tier == 'quick' else 14 * 60)


def replay_C02(inputs):
    _setup()
    out = _eval_task(('C02', inputs))

    return {'reproduced': bool(out['failures']),
            'clauses': sorted(set(c for c, _o in out['failures'])),
            'failures': H.to_jsonable(out['failures']),
            'skipped': out.get('skipped'),
            'internal_error': out.get('internal_error')}


# ---------------------------------------------------------------------------
# C18 - batched changes rewrite each table once, never more than unbatched
# ---------------------------------------------------------------------------

def _table_identities(spec, muts):
    """Map every table name a model's table ever has to one identity."""
    state = SeqState(spec, protected=())
    ident = {}

    for name, info in state.models.items():
        ident[info['table']] = info['table']

    for desc in muts:
        if desc[0] == 'RenameModel' and desc[1] in state.models:
            old_table = state.models[desc[1]]['table']
            ident.setdefault(desc[3], ident.get(old_table, old_table))

        try:
            state.apply(desc)
        except Exception:
            break

    return ident


def _by_identity(rebuilds, ident):
    result = {}

    for table, count in rebuilds.items():
        key = ident.get(table, table)
        result[key] = result.get(key, 0) + count

    return result


_MERGEABLE_KINDS = ('AddField', 'DeleteField', 'ChangeField', 'ChangeMeta')


def _is_mergeable(desc):
    if desc[0] not in _MERGEABLE_KINDS:
        return False

    if desc[0] == 'ChangeField' and ('field_type' in desc[3] or
                                     'db_column' in desc[3]):
        # type changes and column renames are excluded by the property
        return False

    return True


def single_run_models(spec, muts):
    """Models (by start table) whose mutations form ONE run of mergeable
    mutations: all of the model's mutations are consecutive and mergeable,
    and no mutation elsewhere in the sequence is a model level one."""
    if any(desc[0] in ('RenameModel', 'DeleteModel', 'DeleteApplication')
           for desc in muts):
        return {}

    positions = {}

    for index, desc in enumerate(muts):
        if desc[0] == 'SQLMutation':
            continue

        positions.setdefault(desc[1], []).append(index)

    state = SeqState(spec, protected=())
    result = {}

    for model, indexes in positions.items():
        if model not in state.models:
            continue

        if indexes[-1] - indexes[0] + 1 != len(indexes):
            continue

        if all(_is_mergeable(muts[i]) for i in indexes) and len(indexes) > 1:
            result[model] = state.models[model]['table']

    return result


def eval_C18(sc):
    spec, rows, muts = sc['spec'], sc.get('rows'), sc['muts']
    out = {'nontrivial': False, 'skipped': None, 'failures': [],
           'summary': {}}

    ok, error = sim_valid(spec, muts)

    if not ok:
        out['skipped'] = 'simulation-invalid'
        return out

    single = run(spec, [[m] for m in muts], rows)

    if single['error'] is not None:
        out['skipped'] = 'one-at-a-time-rejected:%s' % single['error']['class']
        return out

    batched = run(spec, [muts], rows)

    if batched['error'] is not None:
        out['skipped'] = 'optimised-run-rejected:%s' % \
            batched['error']['class']
        return out

    ident = _table_identities(spec, muts)
    single_counts = _by_identity(single['rebuilds'], ident)
    runs = {'AppMutator': _by_identity(batched['rebuilds'], ident)}

    if sc.get('evolver', True) and len(muts) >= 2:
        # every mutation in its own evolution ("however many evolutions")
        ev = run_evolver(spec, _split_evolutions(muts, len(muts)), rows)

        if ev['error'] is None:
            runs['Evolver(%d evolutions)' % len(muts)] = \
                _by_identity(ev['rebuilds'], ident)

    out['nontrivial'] = len(muts) >= 2 and sum(single_counts.values()) >= 1
    one_run = single_run_models(spec, muts)

    for how, counts in runs.items():
        for table, count in sorted(counts.items(), key=repr):
            if count > single_counts.get(table, 0):
                out['failures'].append(('no-more-than-unbatched', {
                    'how': how, 'table': table, 'optimised': count,
                    'one_at_a_time': single_counts.get(table, 0)}))

        for model, table in sorted(one_run.items()):
            if counts.get(table, 0) > 1:
                out['failures'].append(('mergeable-run-single-rewrite', {
                    'how': how, 'model': model, 'table': table,
                    'rewrites': counts.get(table, 0),
                    'one_at_a_time': single_counts.get(table, 0)}))

    out['summary'] = {
        'one_at_a_time': single_counts,
        'optimised': runs,
        'single_run_models': sorted(one_run),
        'failed_clauses': sorted(set(c for c, _o in out['failures'])),
    }

    return out


_EVALS['C18'] = eval_C18

KNOWN_C18 = []

RULE_C18 = (
    'The C03 sequence space (see suite_C03).  Each sequence is run one '
    'mutation per AppMutator (rescan between), all in one AppMutator, and '
    'through Evolver+EvolveAppTask with every mutation in its own '
    'evolution; rewrites are counted per table on the executed statement '
    'trace (CREATE TABLE "TEMP_TABLE" ... RENAME TO <table>; table names '
    'connected by RenameModel count as one table).  Clauses: '
    'no-more-than-unbatched (per table, optimised <= one-at-a-time) and '
    'mergeable-run-single-rewrite (a model all of whose mutations in the '
    'sequence are consecutive AddField/DeleteField/ChangeField without '
    'field_type or db_column/ChangeMeta, in a sequence without model level '
    'mutations, is rewritten at most once).  Skipped when rejected one at '
    'a time or when the optimised run is rejected (that is C03).  '
    'Non-trivial = length >= 2 and at least one rewrite one at a time.'
)


def suite_C18(tier='quick', seed=0):
    t0 = time.time()
    _setup()
    seqs, groups, exhaustive = _seq_scenarios(tier, seed, 'C18')
    scenarios = []

    for i, seq in enumerate(seqs):
        sc = {'spec': SEQ_SPEC, 'rows': SEQ_ROWS, 'muts': seq}

        if tier == 'quick':
            sc['evolver'] = (i % 2 == 0)

        scenarios.append(sc)

    # dedicated mergeable runs: every ordered selection of 2..3 (4) from a
    # pool of mergeable mutations on one model
    pool = [
        ['AddField', 'A', 'x', 'IntegerField', {'initial': 7}],
        ['AddField', 'A', 'y', 'CharField', {'max_length': 8, 'null': True}],
        ['DeleteField', 'A', 'a2'],
        ['ChangeField', 'A', 'a3', {'null': False, 'initial': 'n'}],
        ['ChangeField', 'A', 'a1', {'max_length': 30}],
        ['ChangeField', 'A', 'a1', {'db_index': True}],
        ['ChangeField', 'A', 'a3', {'unique': True}],
        ['ChangeMeta', 'A', 'unique_together', [['a1', 'a3']]],
        ['ChangeMeta', 'A', 'index_together', [['a1', 'a3']]],
        ['ChangeMeta', 'A', 'indexes', [{'fields': ['a1'], 'name': 'ix'}]],
        ['ChangeMeta', 'A', 'constraints',
         [{'type': {'__cls__': 'UniqueConstraint'}, 'name': 'uc',
           'fields': ['a1']}]],
    ]
    count = 0
    sizes = (2, 3) if tier == 'quick' else (2, 3, 4)
    rng = random.Random(seed)

    for k in sizes:
        perms = list(itertools.permutations(range(len(pool)), k))

        if k == 3 and tier == 'quick':
            perms = rng.sample(perms, 200)
        elif k == 4:
            perms = rng.sample(perms, 2500)

        for perm in perms:
            scenarios.append({'spec': SEQ_SPEC, 'rows': SEQ_ROWS,
                              'muts': [copy.deepcopy(pool[i]) for i in perm],
                              'evolver': tier != 'quick' or count % 3 == 0})
            count += 1

    groups.append('mergeable pool selections: %d' % count)

    return _collect('C18', scenarios, KNOWN_C18,
                    RULE_C18 + '  Scope: ' + '; '.join(groups), exhaustive,
                    t0, budget=55 if tier == 'quick' else 14 * 60)


def replay_C18(inputs):
    _setup()
    out = _eval_task(('C18', inputs))

    return {'reproduced': bool(out['failures']),
            'clauses': sorted(set(c for c, _o in out['failures'])),
            'failures': H.to_jsonable(out['failures']),
            'skipped': out.get('skipped'),
            'internal_error': out.get('internal_error')}
