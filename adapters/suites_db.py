"""Bounded native suites for the database-facing properties C01, C02, C03, C18.

Run from an empty scratch cwd with::

    PYTHONPATH=/repo:/repo/tests:/verif DJANGO_SETTINGS_MODULE=settings \\
    PYTHONDONTWRITEBYTECODE=1 /verif/.venv/bin/python -c \\
        "from adapters import suites_db as S; print(S.suite_C02('quick'))"

Every suite ``suite_<ID>(tier='quick', seed=0)`` enumerates a stated finite
scope of *plain data* scenarios, runs each through the REAL django-evolution
code with ``adapters.evo_harness`` (real ``AppMutator`` / SQLite evolver /
``SQLExecutor`` / ``Evolver`` + ``EvolveAppTask`` against a real scratch
SQLite database) and evaluates the property's clauses.  ``replay_<ID>(inputs)``
re-runs ONE scenario taken from a failure's ``inputs``.

Scenario format (all JSON-able)::

    {'spec': <model spec, see evo_harness; field = [type_name, kwargs]>,
     'rows': {model_name: [{field: value}, ...]},
     'muts': [<mutation description>, ...],
     ... suite specific keys ...}

Mutation descriptions::

    ['AddField', model, field, 'IntegerField', {'initial': 7, 'null': False}]
    ['ChangeField', model, field, {'null': False, 'initial': 5,
                                   'field_type': 'CharField'}]
    ['DeleteField', model, field]
    ['RenameField', model, old, new, {'db_column': ..., 'db_table': ...}]
    ['ChangeMeta', model, prop, value]
    ['RenameModel', old, new, db_table]
    ['DeleteModel', model]
    ['DeleteApplication']
    ['SQLMutation', tag, [sql, ...], 'sim' | 'nosim']

Special encoded values inside kwargs / meta values: ``{'__Q__': {lookup:
value}}`` (a ``django.db.models.Q``), ``{'__cls__': 'UniqueConstraint'}`` (a
class of ``django.db.models``), ``{'__callable__': '<sql text>'}`` (a callable
initial value returning that SQL text).

Multiprocessing: the suites call ``evo_harness.setup()`` in the parent and
then fork up to 8 workers (the test databases are in-memory SQLite
databases, so every forked child owns a private copy).
"""

from __future__ import print_function, unicode_literals

import copy
import itertools
import json
import multiprocessing
import os
import random
import re
import sys
import time
import traceback
import warnings
from collections import OrderedDict

from adapters import evo_harness as H


MAX_WORKERS = 8
MAX_FAILURES = 10

_last_project_sig = [None]
_orig_project_sig_fn = [None]


# ---------------------------------------------------------------------------
# Harness glue
# ---------------------------------------------------------------------------

def _setup():
    """Set up the harness and hook the project-signature factory.

    ``evo_harness.run_mutations`` does not return the live
    ``ProjectSignature`` it evolved; the hook remembers the most recently
    created one (the start signature object, which the ``AppMutator``
    evolves in place).
    """
    H.setup()

    import logging
    logging.disable(logging.CRITICAL)

    if _orig_project_sig_fn[0] is None:
        _orig_project_sig_fn[0] = H._project_sig

        def _recording_project_sig(model_map):
            sig = _orig_project_sig_fn[0](model_map)
            _last_project_sig[0] = sig
            return sig

        H._project_sig = _recording_project_sig


def _models():
    from django.db import models
    return models


def _dec(value):
    """Decode the special encoded values (Q, class, callable)."""
    models = _models()

    if isinstance(value, dict):
        if len(value) == 1 and '__Q__' in value:
            return models.Q(**dict((str(k), _dec(v))
                                   for k, v in value['__Q__'].items()))

        if len(value) == 1 and '__cls__' in value:
            return getattr(models, value['__cls__'])

        if '__callable__' in value:
            text = value['__callable__']
            return lambda: text

        return OrderedDict((k, _dec(v)) for k, v in value.items())

    if isinstance(value, (list, tuple)):
        return [_dec(item) for item in value]

    return value


def _enc(value):
    """Inverse of :func:`_dec` for values found in real mutation objects."""
    models = _models()

    if isinstance(value, models.Q):
        if value.connector == 'AND' and not value.negated and all(
                isinstance(child, tuple) for child in value.children):
            return {'__Q__': dict((k, _enc(v)) for k, v in value.children)}

        return {'__repr__': repr(value)}

    if isinstance(value, type):
        return {'__cls__': value.__name__}

    if isinstance(value, dict):
        return OrderedDict((k, _enc(v)) for k, v in value.items())

    if isinstance(value, (list, tuple)):
        return [_enc(item) for item in value]

    if value is None or isinstance(value, (bool, int, float, str)):
        return value

    if callable(value):
        return {'__repr__': repr(value)}

    return {'__repr__': repr(value)}


def dec_spec(spec):
    """Turn a JSON-able spec into what ``evo_harness.build_models`` takes."""
    result = OrderedDict()

    for model_name, model_spec in spec.items():
        fields = OrderedDict()

        for field_name, info in (model_spec.get('fields') or {}).items():
            fields[field_name] = (info[0], _dec(dict(info[1])))

        meta = OrderedDict()

        for key, value in (model_spec.get('meta') or {}).items():
            value = _dec(value)

            if key in ('unique_together', 'index_together'):
                value = [tuple(item) for item in value]
            elif key == 'constraints':
                fixed = []

                for item in value:
                    item = dict(item)

                    if isinstance(item.get('type'), type):
                        item['type'] = item['type'].__name__

                    fixed.append(item)

                value = fixed

            meta[key] = value

        result[model_name] = {'fields': fields, 'meta': meta}

    return result


def _noop_update(simulation):
    pass


def mk(desc):
    """Build a real mutation object from a plain description."""
    _setup()

    models = _models()
    from django_evolution import mutations as M

    kind = desc[0]

    if kind == 'AddField':
        kwargs = dict((str(k), _dec(v)) for k, v in (desc[4] or {}).items())
        return M.AddField(desc[1], desc[2], getattr(models, desc[3]),
                          **kwargs)

    if kind == 'ChangeField':
        kwargs = dict((str(k), _dec(v)) for k, v in (desc[3] or {}).items())

        if isinstance(kwargs.get('field_type'), str):
            kwargs['field_type'] = getattr(models, kwargs['field_type'])

        return M.ChangeField(desc[1], desc[2], **kwargs)

    if kind == 'DeleteField':
        return M.DeleteField(desc[1], desc[2])

    if kind == 'RenameField':
        kwargs = dict((str(k), v)
                      for k, v in (desc[4] if len(desc) > 4 and desc[4]
                                   else {}).items())
        return M.RenameField(desc[1], desc[2], desc[3], **kwargs)

    if kind == 'ChangeMeta':
        value = _dec(desc[3])

        if desc[2] in ('unique_together', 'index_together'):
            value = [tuple(item) for item in value]
        elif desc[2] == 'indexes':
            value = [dict(item) for item in value]
        elif desc[2] == 'constraints':
            # Constraint.deconstruct() (what signatures and hinted
            # evolutions hold) has 'fields' as a tuple.
            value = [dict(item) for item in value]

            for item in value:
                if isinstance(item.get('fields'), list):
                    item['fields'] = tuple(item['fields'])

        return M.ChangeMeta(desc[1], desc[2], value)

    if kind == 'RenameModel':
        return M.RenameModel(desc[1], desc[2], db_table=desc[3])

    if kind == 'DeleteModel':
        return M.DeleteModel(desc[1])

    if kind == 'DeleteApplication':
        return M.DeleteApplication()

    if kind == 'SQLMutation':
        mode = desc[3] if len(desc) > 3 else 'sim'
        return M.SQLMutation(desc[1], list(desc[2]),
                             update_func=(_noop_update if mode == 'sim'
                                          else None))

    raise ValueError('Unknown mutation description %r' % (desc,))


def mks(descs):
    return [mk(desc) for desc in descs]


def desc_of(mutation):
    """Describe a real mutation object as plain data (for hinted ones)."""
    from django_evolution import mutations as M

    if isinstance(mutation, M.AddField):
        kwargs = OrderedDict(sorted(
            (k, _enc(v)) for k, v in mutation.field_attrs.items()))

        if mutation.initial is not None:
            kwargs['initial'] = _enc(mutation.initial)

        return ['AddField', mutation.model_name, mutation.field_name,
                mutation.field_type.__name__, kwargs]

    if isinstance(mutation, M.ChangeField):
        kwargs = OrderedDict(sorted(
            (k, _enc(v)) for k, v in mutation.field_attrs.items()))

        if mutation.field_type is not None:
            kwargs['field_type'] = mutation.field_type.__name__

        if mutation.initial is not None:
            kwargs['initial'] = _enc(mutation.initial)

        return ['ChangeField', mutation.model_name, mutation.field_name,
                kwargs]

    if isinstance(mutation, M.DeleteField):
        return ['DeleteField', mutation.model_name, mutation.field_name]

    if isinstance(mutation, M.RenameField):
        kwargs = {}

        if mutation.db_column:
            kwargs['db_column'] = mutation.db_column

        if mutation.db_table:
            kwargs['db_table'] = mutation.db_table

        return ['RenameField', mutation.model_name, mutation.old_field_name,
                mutation.new_field_name, kwargs]

    if isinstance(mutation, M.ChangeMeta):
        return ['ChangeMeta', mutation.model_name, mutation.prop_name,
                _enc(mutation.new_value)]

    if isinstance(mutation, M.RenameModel):
        return ['RenameModel', mutation.old_model_name,
                mutation.new_model_name, mutation.db_table]

    if isinstance(mutation, M.DeleteModel):
        return ['DeleteModel', mutation.model_name]

    if isinstance(mutation, M.DeleteApplication):
        return ['DeleteApplication']

    if isinstance(mutation, M.SQLMutation):
        return ['SQLMutation', mutation.tag, list(mutation.sql),
                'sim' if mutation.update_func else 'nosim']

    return ['<%s>' % type(mutation).__name__, repr(mutation)]


def mutation_fingerprint(mutation):
    """Everything that defines a mutation, as comparable plain data."""
    data = {}

    for key, value in sorted(vars(mutation).items()):
        if key == 'update_func':
            continue

        data[key] = H._plain(copy.deepcopy(value)) if not callable(value) \
            else repr(value)

    return (type(mutation).__name__, json.dumps(data, sort_keys=True,
                                                default=repr))


#: Exceptions that mean "the library rejected the input" (legitimately).
def _is_rejection(error):
    if error is None:
        return False

    return error['class'] in (
        'SimulationFailure', 'EvolutionNotImplementedError',
        'CannotSimulate', 'EvolutionBaselineMissingError',
        'EvolutionException', 'MissingSignatureError',
        'InvalidSignatureVersion',
    )


def run(spec, groups, rows=None, end_spec=None, database='default'):
    """``evo_harness.run_mutations`` for described or real mutations.

    Returns the harness result with an extra ``'project_sig'`` (the live
    evolved ``ProjectSignature`` object or ``None``).
    """
    _setup()

    real_groups = []

    for group in groups:
        real_groups.append([
            mk(item) if isinstance(item, (list, tuple)) else item
            for item in group
        ])

    _last_project_sig[0] = None
    result = H.run_mutations(dec_spec(spec), real_groups,
                             rows=_dec_rows(rows), database=database,
                             end_spec=(dec_spec(end_spec)
                                       if end_spec is not None else None))
    result['project_sig'] = _last_project_sig[0]

    return result


def _dec_rows(rows):
    if not rows:
        return rows

    return OrderedDict((name, [OrderedDict(row) for row in table_rows])
                       for name, table_rows in rows.items())


def sim_valid(spec, descs):
    """Is the sequence valid when simulated one mutation at a time?

    Returns ``(ok, error_dict)``.
    """
    _setup()
    result = H.simulate_only(dec_spec(spec), mks(descs))

    return result['error'] is None, result['error']


# ---------------------------------------------------------------------------
# The real Evolver pipeline
# ---------------------------------------------------------------------------

#: ``Evolver.__init__`` and ``Evolver.evolve`` each do a full
#: ``DatabaseState.rescan_tables()`` (~80 ms, nearly all of it re-parsing the
#: never changing baseline tables).  When True, :func:`run_evolver` swaps in
#: a rescan that takes the baseline tables from the harness cache and scans
#: only the scratch tables -- the same shortcut (and the same result, see
#: evo_harness_selftest) the harness uses for its own ``AppMutator`` runs.
FAST_EVOLVER_SCAN = True


class _fast_rescan(object):
    def __init__(self, database):
        self.database = database

    def __enter__(self):
        from django_evolution.db.state import DatabaseState

        self.cls = DatabaseState
        self.orig = DatabaseState.rescan_tables

        if FAST_EVOLVER_SCAN:
            # fill the harness' baseline cache with the REAL rescan first
            H.scan_database_state(self.database)

            def rescan_tables(state):
                fresh = H.scan_database_state(state.db_name)

                for table_name, data in fresh._tables.items():
                    state._tables[table_name] = data

            DatabaseState.rescan_tables = rescan_tables

    def __exit__(self, *args):
        self.cls.rescan_tables = self.orig


def run_evolver(spec, evolutions, rows=None, database='default'):
    """Run evolutions through ``Evolver`` + ``EvolveAppTask`` (real pipeline).

    Args:
        spec (dict): JSON-able start spec.
        evolutions (list): ``[(label, [mutation desc or object, ...]), ...]``.
        rows (dict): start rows.

    The start models are created and a ``Version`` holding their signature
    is stored (that is what an installed project looks like); then
    ``Evolver()`` is created, an ``EvolveAppTask(evolutions=...)`` queued and
    ``Evolver.evolve()`` called: ``prepare()`` processes the mutations a
    first time, ``_build_batches()`` processes THE SAME mutation objects
    again and that SQL is executed.

    Returns:
        dict: ``error``, ``statements`` (executed, without params),
        ``rebuilds``, ``final_sig``, ``schema``, ``rows``, ``fk_check``,
        ``mutations`` (the real mutation objects).
    """
    _setup()

    from django.db import connections
    from django_evolution.evolve import EvolveAppTask, Evolver
    from django_evolution.models import Evolution, Version
    from django_evolution.tests import models as evo_test

    result = {'error': None, 'statements': [], 'rebuilds': {},
              'final_sig': None, 'schema': {}, 'rows': {}, 'fk_check': [],
              'mutations': []}
    connection = connections[database]
    H._cleanup(database)
    base_version_ids = None
    _clear_custom_migrations()

    try:
        with warnings.catch_warnings():
            warnings.simplefilter('ignore')

            try:
                model_map = H.build_models(dec_spec(spec))
                project_sig = _orig_project_sig_fn[0](model_map)
                H._create_tables(database)

                if rows:
                    H._insert_rows(model_map, _dec_rows(rows), database)

                base_version_ids = set(
                    Version.objects.using(database)
                    .values_list('pk', flat=True))
                latest = Version.objects.using(database).order_by('-pk')[0]
                start_sig = latest.signature.clone()

                if start_sig.get_app_sig(H.APP_LABEL) is not None:
                    start_sig.remove_app_sig(H.APP_LABEL)

                start_sig.add_app_sig(
                    project_sig.get_app_sig(H.APP_LABEL).clone())
                Version(signature=start_sig).save(using=database)

                real_evolutions = []

                for label, items in evolutions:
                    real = [mk(item) if isinstance(item, (list, tuple))
                            else item for item in items]
                    result['mutations'].extend(real)
                    real_evolutions.append({'label': label,
                                            'mutations': real})
            except Exception as e:
                result['error'] = H._error_dict(e, 'setup')

            if result['error'] is None:
                recorded = []

                def recorder(execute, statement, params, many, context):
                    recorded.append(statement)
                    return execute(statement, params, many, context)

                evolver = None
                phase = 'prepare'

                try:
                    with connection.execute_wrapper(recorder), \
                            _fast_rescan(database):
                        evolver = Evolver(database_name=database)
                        task = EvolveAppTask(evolver, app=evo_test,
                                             evolutions=real_evolutions)
                        evolver.queue_task(task)
                        evolver._prepare_tasks()
                        del recorded[:]
                        phase = 'execute'
                        evolver.evolve()
                except Exception as e:
                    result['error'] = H._error_dict(e, phase)
                    inner = e.__context__

                    if (type(e).__name__ == 'EvolutionExecutionError' and
                        inner is not None):
                        # report the database error it wraps
                        result['error']['wrapped_in'] = type(e).__name__
                        result['error']['class'] = type(inner).__name__
                        result['error']['message'] = str(inner)

                result['statements'] = [
                    statement for statement in recorded
                    if isinstance(statement, str)
                ]
                result['rebuilds'] = H.count_rebuilds(result['statements'])

                if evolver is not None:
                    try:
                        result['final_sig'] = H.simplify_sig(
                            evolver.project_sig)
                    except Exception as e:  # pragma: no cover
                        result['final_sig'] = {'__error__': repr(e)}

        H._reset_connection(connection)
        result['schema'] = H.introspect_schema(database)
        result['rows'] = H.dump_rows(database)
        result['fk_check'] = H.fk_check(database)
    finally:
        try:
            H._reset_connection(connection)

            if base_version_ids is not None:
                Evolution.objects.using(database).filter(
                    app_label=H.APP_LABEL).delete()
                Evolution.objects.using(database).exclude(
                    version__in=base_version_ids).delete()
                Version.objects.using(database).exclude(
                    pk__in=base_version_ids).delete()
        except Exception:  # pragma: no cover - defensive
            pass

        _clear_custom_migrations()
        H._cleanup(database)

    return result


def _clear_custom_migrations():
    """``EvolveAppTask.prepare_tasks`` registers custom migrations globally
    and only clears them when it does not fail; never leak that into the
    next scenario."""
    try:
        from django_evolution.utils.migrations import \
            clear_global_custom_migrations
        clear_global_custom_migrations()
    except Exception:  # pragma: no cover - defensive
        pass


# ---------------------------------------------------------------------------
# Signature -> spec (the "evolved models"), schema comparison
# ---------------------------------------------------------------------------

def spec_from_sig(project_sig):
    """Build a (non JSON) harness spec describing the evolved models."""
    models = _models()
    app_sig = project_sig.get_app_sig(H.APP_LABEL)
    spec = OrderedDict()

    if app_sig is None:
        return spec

    for model_sig in app_sig.model_sigs:
        fields = OrderedDict()

        for field_sig in model_sig.field_sigs:
            field_type = field_sig.field_type
            attrs = dict(field_sig.field_attrs)

            if (field_sig.field_name == 'id' and
                issubclass(field_type, models.AutoField) and
                attrs.get('primary_key')):
                continue

            attrs.pop('related_model', None)

            if field_sig.related_model:
                app_label, model_name = field_sig.related_model.split('.')

                if app_label == H.APP_LABEL:
                    attrs['to'] = model_name
                else:
                    attrs['to'] = field_sig.related_model

            if issubclass(field_type, models.ManyToManyField):
                attrs.pop('null', None)

                if attrs.get('db_table') is None:
                    attrs.pop('db_table', None)

            fields[field_sig.field_name] = (field_type, attrs)

        meta = OrderedDict()
        meta['db_table'] = model_sig.table_name

        if model_sig.unique_together:
            meta['unique_together'] = [tuple(item) for item in
                                       model_sig.unique_together]

        if model_sig.index_together:
            meta['index_together'] = [tuple(item) for item in
                                      model_sig.index_together]

        indexes = []

        for index_sig in model_sig.index_sigs:
            kwargs = dict(index_sig.attrs or {})

            if index_sig.fields:
                kwargs['fields'] = list(index_sig.fields)

            if index_sig.name:
                kwargs['name'] = index_sig.name

            if index_sig.expressions:
                indexes.append(models.Index(*index_sig.expressions,
                                            **kwargs))
            else:
                indexes.append(models.Index(**kwargs))

        if indexes:
            meta['indexes'] = indexes

        constraints = []

        for constraint_sig in model_sig.constraint_sigs:
            kwargs = dict(constraint_sig.attrs or {})
            kwargs['name'] = constraint_sig.name
            constraints.append(constraint_sig.type(**kwargs))

        if constraints:
            meta['constraints'] = constraints

        spec[model_sig.model_name] = {'fields': fields, 'meta': meta}

    return spec


def fresh_schema_of_sig(project_sig, database='default'):
    """Create the evolved models from scratch and introspect the schema."""
    spec = spec_from_sig(project_sig)

    if not spec:
        return OrderedDict()

    # spec_from_sig() already holds real classes/objects: bypass dec_spec().
    return H.fresh_schema(spec, database=database)


_WS_RE = re.compile(r'\s+')


def _balanced(text, start):
    """Return the index just after the paren group opening at ``start``."""
    depth = 0
    i = start
    in_str = None

    while i < len(text):
        ch = text[i]

        if in_str:
            if ch == in_str:
                in_str = None
        elif ch in ('"', "'"):
            in_str = ch
        elif ch == '(':
            depth += 1
        elif ch == ')':
            depth -= 1

            if depth == 0:
                return i + 1

        i += 1

    return len(text)


def _check_clauses(create_sql):
    clauses = []

    if not create_sql:
        return clauses

    for m in re.finditer(r'\bCHECK\s*\(', create_sql):
        start = m.end() - 1
        end = _balanced(create_sql, start)
        clauses.append(_WS_RE.sub(' ', create_sql[start:end]).strip())

    return sorted(clauses)


def _index_conditions(index_sql):
    result = []

    for statement in index_sql or []:
        m = re.search(r'\)\s*WHERE\s+(.*)$', statement, re.S)

        if m:
            unique = statement.upper().startswith('CREATE UNIQUE')
            cols = re.search(r'\bON\s+"[^"]+"\s*\((.*?)\)\s*WHERE',
                             statement, re.S)
            result.append((int(unique),
                           _WS_RE.sub(' ', cols.group(1)) if cols else None,
                           _WS_RE.sub(' ', m.group(1)).strip()))

    return sorted(result, key=repr)


def norm_table(info):
    """Reduce a harness table description to what C01 talks about."""
    return {
        'columns': dict(
            (name, (str(decl or '').lower(), int(notnull), int(pk)))
            for name, decl, notnull, pk in info['columns']),
        'indexes': sorted([[int(unique), list(cols)]
                           for unique, cols in info['indexes']], key=repr),
        'index_conditions': [list(item) for item in
                             _index_conditions(info.get('index_sql'))],
        'checks': _check_clauses(info.get('create_sql')),
        'foreign_keys': sorted([list(item)
                                for item in info['foreign_keys']], key=repr),
    }


def schema_diff(actual, expected, tables=None):
    """Differences between two harness schemas as a JSON-able list."""
    diffs = []
    names = sorted(set(actual) | set(expected))

    for name in names:
        if tables is not None and name not in tables:
            continue

        if name not in actual:
            diffs.append({'table': name, 'what': 'missing-table'})
            continue

        if name not in expected:
            diffs.append({'table': name, 'what': 'unexpected-table'})
            continue

        a = norm_table(actual[name])
        e = norm_table(expected[name])

        for key in ('columns', 'indexes', 'index_conditions', 'checks',
                    'foreign_keys'):
            if a[key] != e[key]:
                if key == 'columns':
                    detail = {
                        'actual': dict((c, v) for c, v in a[key].items()
                                       if e[key].get(c) != v),
                        'expected': dict((c, v) for c, v in e[key].items()
                                         if a[key].get(c) != v),
                    }
                else:
                    detail = {'actual': a[key], 'expected': e[key]}

                diffs.append(dict({'table': name, 'what': key}, **detail))

    return diffs


def rows_by_name(rows):
    """{table: sorted list of {column: value}} (column order independent)."""
    result = {}

    for table, data in rows.items():
        cols = data['columns']
        result[table] = sorted(
            (dict(zip(cols, row)) for row in data['rows']),
            key=lambda item: json.dumps(item, sort_keys=True, default=repr))

    return result


def schema_ctx(final_sig, rebuilt_tables):
    """Facts about the expected models used to attribute schema differences
    to recorded root causes (see ``classify_schema_atom``)."""
    ctx = {'rebuilt': sorted(t for t in rebuilt_tables if t), 'tables': {}}

    for _model, msig in (final_sig or {}).items():
        table = msig['meta']['db_table']
        cols = dict((f, _field_col(f, info))
                    for f, info in msig['fields'].items())
        meta_indexes = []

        def add(fields):
            if fields:
                meta_indexes.append([cols.get(f.lstrip('-'), f)
                                     for f in fields])

        for prop in ('unique_together', 'index_together'):
            for item in msig['meta'].get(prop) or []:
                add(item)

        for item in msig['meta'].get('indexes') or []:
            add(item.get('fields'))

        for item in msig['meta'].get('constraints') or []:
            add((item.get('attrs') or {}).get('fields'))

        ctx['tables'][table] = {
            'meta_indexes': meta_indexes,
            'positive': [cols[f] for f, info in msig['fields'].items()
                         if info['type'].endswith('PositiveIntegerField')],
        }

    return ctx


def schema_atoms(diff):
    """Split a ``schema_diff`` result into single differences."""
    atoms = []

    for entry in diff:
        table, what = entry['table'], entry['what']

        if what in ('missing-table', 'unexpected-table'):
            atoms.append({'table': table, 'kind': what, 'item': None})
        elif what == 'columns':
            for col, value in sorted(entry['expected'].items()):
                if col in entry['actual']:
                    atoms.append({'table': table, 'kind': 'column-differs',
                                  'item': [col, entry['actual'][col],
                                           value]})
                else:
                    atoms.append({'table': table, 'kind': 'column-missing',
                                  'item': [col, value]})

            for col, value in sorted(entry['actual'].items()):
                if col not in entry['expected']:
                    atoms.append({'table': table, 'kind': 'column-extra',
                                  'item': [col, value]})
        else:
            actual = list(entry['actual'])
            expected = list(entry['expected'])

            for item in list(expected):
                if item in actual:
                    actual.remove(item)
                    expected.remove(item)

            singular = {'indexes': 'index', 'index_conditions':
                        'index-condition', 'checks': 'check',
                        'foreign_keys': 'foreign-key'}[what]

            for item in expected:
                atoms.append({'table': table, 'kind': singular + '-missing',
                              'item': item})

            for item in actual:
                atoms.append({'table': table, 'kind': singular + '-extra',
                              'item': item})

    return atoms


def classify_schema_atom(atom, ctx):
    """Attribute one schema difference to a recorded root cause (or None).

    Deliberately narrow: anything not exactly of a recorded shape stays
    unexplained and the failure stays ``known: False``.
    """
    table = atom['table']
    info = ctx['tables'].get(table)
    rebuilt = table in ctx['rebuilt']
    kind, item = atom['kind'], atom['item']

    if info is None:
        return None

    if kind == 'check-missing':
        m = re.match(r'^\("([^"]+)" >= 0\)$', item)

        if m and m.group(1) in info['positive']:
            return 'positive-integer-check-not-created'

        if rebuilt:
            return 'rebuild-loses-table-level-objects'

    if kind == 'index-missing' and rebuilt and \
       list(item[1]) in info['meta_indexes']:
        return 'rebuild-loses-table-level-objects'

    if kind == 'index-condition-missing' and rebuilt:
        return 'rebuild-loses-table-level-objects'

    return None


def _scenario_facts(ctx, final_sig, muts):
    """Facts about the mutations used by the narrow attribution rules."""
    muts = muts or []
    table_of = {}
    col_of = {}
    m2m_tables = set()

    for model, msig in (final_sig or {}).items():
        table_of[model] = msig['meta']['db_table']

        for fname, info in msig['fields'].items():
            col = _field_col(fname, info)

            if col is None:
                m2m_tables.add(_m2m_table(msig, fname, info))
            else:
                col_of[(model, fname)] = col

    # Resolve the model / field names written in each mutation to the names
    # they have at the END of the run (walk backwards through the renames).
    model_final = {}
    field_final = {}
    resolved = []

    for desc in reversed(muts):
        kind = desc[0]

        if kind == 'RenameModel':
            model_final[desc[1]] = model_final.get(desc[2], desc[2])
            resolved.append((desc, None, None))
            continue

        if kind in ('SQLMutation', 'DeleteApplication', 'DeleteModel'):
            resolved.append((desc, None, None))
            continue

        model = model_final.get(desc[1], desc[1])

        if kind == 'RenameField':
            field_final[(model, desc[2])] = field_final.get(
                (model, desc[3]), desc[3])
            resolved.append((desc, model, field_final[(model, desc[2])]))
        elif kind in ('AddField', 'DeleteField'):
            # a name (re)introduced or removed here is a new identity for
            # everything before this point
            fname = field_final.pop((model, desc[2]), desc[2])
            resolved.append((desc, model, fname))
        elif kind == 'ChangeField':
            resolved.append((desc, model,
                             field_final.get((model, desc[2]), desc[2])))
        else:
            resolved.append((desc, model, None))

    resolved.reverse()

    late_db_index = set()      # (table, col): db_index changed, not 1st op
    checked_db_index = set()   # (table, col): db_index change on any col
    seen_models = set()
    renamed_ids = set()
    relation_type_change = False
    renamed_cols = set()       # new names of columns renamed in the run
    ut_deleted = set()         # tables where a unique_together member
    ut_fields = {}             # was deleted in the same run

    for desc, model, fname in resolved:
        kind = desc[0]

        if kind == 'RenameModel':
            renamed_ids.add('%s_id' % desc[1].lower())
            renamed_ids.add('%s_id' % desc[2].lower())
            continue

        if model is None:
            continue

        if kind == 'ChangeField':
            kwargs = desc[3]
            key = (table_of.get(model), col_of.get((model, fname)))

            if 'db_index' in kwargs:
                checked_db_index.add(key)

                if model in seen_models:
                    late_db_index.add(key)

            if 'field_type' in kwargs and 'related_model' in kwargs:
                relation_type_change = True

            if kwargs.get('db_column'):
                renamed_cols.add(kwargs['db_column'])
        elif kind == 'RenameField':
            renamed_cols.add(col_of.get((model, fname)) or
                             (desc[4] or {}).get('db_column') or desc[3])
        elif kind == 'ChangeMeta' and desc[2] == 'unique_together':
            ut_fields.setdefault(model, set()).update(
                f for item in desc[3] for f in item)
        elif kind == 'DeleteField' and desc[2] in ut_fields.get(model, ()):
            ut_deleted.add(table_of.get(model))

        seen_models.add(model)

    feats = sequence_features(muts, batched=ctx.get('batched', True))
    ctx.update({
        'features': feats,
        'm2m_tables': sorted(m2m_tables),
        'late_db_index': sorted(late_db_index, key=repr),
        'checked_db_index': sorted(checked_db_index, key=repr),
        'renamed_ids': sorted(renamed_ids),
        'relation_type_change': relation_type_change,
        'renamed_cols': sorted(c for c in renamed_cols if c),
        'renamed_tables': sorted(set(
            desc[3] for desc in muts if desc[0] == 'RenameModel')),
        'ut_deleted': sorted(t for t in ut_deleted if t),
    })


def sequence_features(muts, batched=True, spec=None):
    """Syntactic features of a mutation sequence that the recorded root
    causes are keyed on.  Field and model names are followed through
    RenameModel; "same run" features are only reported for batched runs.
    """
    muts = muts or []
    feats = {
        'readded': [],            # column names deleted and re-added
        'type_change_custom_column': False,
        'renamed_model_touched_later': False,
        'index_and_column_changed': [],   # field names
        'constraints_changed_twice': False,
        'noop_field_in_changemeta': False,
        'field_ids_across_model_rename': False,
        'reorder_sensitive': False,
        'ut_member_deleted': False,
        'changefield_then_type_change': False,
        'rename_to_baseline_name': False,
        'null_roundtrip': False,
        'column_name_chain': False,
        'chain_names': [],
        'type_change_names': [],
        'added_relation_then_target_renamed': False,
    }
    alias = {}
    name_setters = {}            # field -> number of column-name deciders
    chain_candidates = {}        # field -> names it had / got
    added_relations = set()      # target model names of added relations
    notnull_fixed = set()
    changed_fields = set()
    batch_created = set()        # models created by a rename in this batch
    spec_models = set(spec or ())                   # current model name -> first name

    def first_name(model):
        return alias.get(model, model)

    deleted = set()
    custom_col = {}              # (model0, field) -> custom column
    index_fields = set()
    column_fields = set()
    type_fields = set()
    ut_members = set()
    constraints_seen = set()
    added = {}
    ever_added = set()
    renamed_to = set()
    meta_refs = {}
    renamed_models = set()
    touched_before_rename = set()

    if spec:
        for model, model_spec in spec.items():
            for fname, info in (model_spec.get('fields') or {}).items():
                if info[1].get('db_column'):
                    custom_col[(model, fname)] = info[1]['db_column']

    order = []

    for desc in muts:
        kind = desc[0]

        if kind == 'SQLMutation':
            batch_created = set()

        if kind == 'SQLMutation':
            name_setters = {}
            added_relations = set()

        if kind == 'RenameModel' and desc[1] in added_relations and batched:
            feats['added_relation_then_target_renamed'] = True

        if kind == 'RenameModel':
            if (batched and spec_models and desc[1] not in batch_created and
                desc[1] not in spec_models and desc[2] in spec_models):
                feats['rename_to_baseline_name'] = True

            batch_created.add(desc[2])
            alias[desc[2]] = first_name(desc[1])
            renamed_models.add(desc[2])

            if first_name(desc[1]) in touched_before_rename:
                feats['field_ids_across_model_rename'] = True

            order.append(desc[1])
            continue

        if kind in ('SQLMutation', 'DeleteApplication'):
            order.append(None)
            continue

        order.append(desc[1])
        model = first_name(desc[1])

        if desc[1] in renamed_models and batched:
            feats['renamed_model_touched_later'] = True

        if kind == 'DeleteModel':
            continue

        touched_before_rename.add(model)
        key = (model, desc[2])

        if kind == 'DeleteField':
            deleted.add(key)

            if key in ut_members and batched:
                feats['ut_member_deleted'] = True

            if (key in added or key in renamed_to) and \
               key in meta_refs and batched:
                feats['noop_field_in_changemeta'] = True
        elif kind == 'AddField':
            if key in ever_added and batched:
                feats['readded'].append(desc[2])

            ever_added.add(key)
            added[key] = True
            changed_fields.add(key)
            related = (desc[4] or {}).get('related_model')

            if related:
                added_relations.add(related.split('.')[-1])

            if key in deleted and batched:
                feats['readded'].append(desc[2])
        elif kind == 'RenameField':
            new_key = (model, desc[3])
            renamed_to.add(new_key)
            name_setters[new_key] = name_setters.pop(key, 0) + 1

            if name_setters[new_key] >= 2 and batched:
                feats['column_name_chain'] = True

            chain_candidates.setdefault(new_key, set()).update(
                chain_candidates.pop(key, set()) |
                set([desc[2], desc[3], (desc[4] or {}).get('db_column')]))

            if name_setters[new_key] >= 2 and batched:
                feats['chain_names'] = sorted(set(feats['chain_names']) | set(
                    n for n in chain_candidates[new_key] if n))

            if key in changed_fields:
                changed_fields.add(new_key)

            if desc[2] in feats['type_change_names']:
                # the field whose ChangeFields were merged across a type
                # change goes on under a new name / column name
                feats['type_change_names'].append(desc[3])

                if (desc[4] or {}).get('db_column'):
                    feats['type_change_names'].append(desc[4]['db_column'])

            if key in notnull_fixed:
                notnull_fixed.add(new_key)

            if new_key in deleted and batched:
                feats['readded'].append(desc[3])

            for mapping in (custom_col,):
                mapping.pop(key, None)

            if (desc[4] or {}).get('db_column'):
                custom_col[new_key] = desc[4]['db_column']

            if key in added:
                added[new_key] = added.pop(key)

            if key in index_fields:
                index_fields.add(new_key)

            if key in column_fields:
                column_fields.add(new_key)

            if key in type_fields:
                type_fields.add(new_key)

            if key in notnull_fixed:
                # the null round trip survives a rename of the field in between
                notnull_fixed.add(new_key)
        elif kind == 'ChangeField':
            kwargs = desc[3]

            if 'field_type' in kwargs:
                type_fields.add(key)

                if key in changed_fields and batched:
                    feats['changefield_then_type_change'] = True
                    feats['type_change_names'].append(desc[2])

                if key in custom_col and not kwargs.get('db_column'):
                    feats['type_change_custom_column'] = True

                if not kwargs.get('db_column'):
                    custom_col.pop(key, None)

            changed_fields.add(key)

            if kwargs.get('null') is False and \
               kwargs.get('initial') is not None:
                notnull_fixed.add(key)
            elif kwargs.get('null') is True and key in notnull_fixed \
                    and batched:
                feats['null_roundtrip'] = True

            if 'db_column' in kwargs:
                name_setters[key] = name_setters.get(key, 0) + 1

                chain_candidates.setdefault(key, set()).update(
                    [desc[2], kwargs['db_column']])

                if name_setters[key] >= 2 and batched:
                    feats['column_name_chain'] = True
                    feats['chain_names'] = sorted(
                        set(feats['chain_names']) |
                        set(n for n in chain_candidates[key] if n))

            if 'db_column' in kwargs:
                column_fields.add(key)

                if kwargs['db_column']:
                    custom_col[key] = kwargs['db_column']

            if 'db_index' in kwargs or 'unique' in kwargs:
                index_fields.add(key)
        elif kind == 'ChangeMeta':
            if desc[2] == 'unique_together':
                ut_members.update((model, f) for item in desc[3]
                                  for f in item)

            if desc[2] == 'constraints':
                if model in constraints_seen and batched:
                    feats['constraints_changed_twice'] = True

                constraints_seen.add(model)

            for name in re.findall(r'"([A-Za-z_0-9]+)"',
                                   json.dumps(desc[3])):
                meta_refs[(model, name)] = True

    if batched and (type_fields & column_fields):
        feats['type_change_custom_column'] = True

    # The optimiser drops RenameModel(x -> y) when y is deleted later in the
    # batch and rewrites the DeleteModel to x: use the folded names.
    folded_to = {}

    for index, desc in enumerate(muts):
        if desc[0] == 'RenameModel':
            for later in muts[index + 1:]:
                if later[0] == 'SQLMutation':
                    break

                if later[0] == 'DeleteModel' and later[1] == desc[2]:
                    folded_to[desc[2]] = folded_to.get(desc[1], desc[1])
                    break

    if folded_to:
        new_order = []

        for desc, name in zip(muts, order):
            if desc[0] == 'RenameModel' and desc[2] in folded_to:
                continue

            new_order.append(folded_to.get(name, name))

        order = new_order

    if batched:
        feats['index_and_column_changed'] = sorted(
            f for (_m, f) in (index_fields & column_fields))
        names = [n for n in order if n is not None]
        seen = []

        for name in names:
            if name not in seen:
                seen.append(name)

        # _process_mutation_batch regroups by sorted(model name)
        grouped = [n for key in sorted(set(names)) for n in names
                   if n == key]
        feats['reorder_sensitive'] = (grouped != names and
                                      None not in order)

        if None in order:
            # barriers split the batches; evaluate per chunk
            chunk, sensitive = [], False

            for name in order + [None]:
                if name is None:
                    grouped = [n for key in sorted(set(chunk))
                               for n in chunk if n == key]
                    sensitive = sensitive or grouped != chunk
                    chunk = []
                else:
                    chunk.append(name)

            feats['reorder_sensitive'] = sensitive

    return feats


def classify_by_scenario(atom, ctx):
    """Attribution rules that need to know the mutations (see KNOWN_C01)."""
    table, kind, item = atom['table'], atom['kind'], atom['item']
    feats = ctx.get('features') or {}

    if (feats.get('renamed_model_touched_later') and
        kind in ('index-extra', 'index-missing') and
        table in ctx.get('renamed_tables', [])):
        return 'rename-model-not-tracked-in-database-state'

    if kind == 'column-missing' and any(
            item[0] in (name, name + '_id')
            for name in feats.get('readded', [])):
        return 'delete-and-readd-same-column-in-one-run'

    if (kind in ('index-missing', 'foreign-key-missing') and any(
            (name + '_id') in json.dumps(item)
            for name in feats.get('readded', []))):
        return 'delete-and-readd-same-column-in-one-run'

    if (kind in ('index-missing', 'index-extra') and feats.get('readded')
        and any(col is None or col in feats['readded']
                for col in item[1])):
        return 'delete-and-readd-same-column-in-one-run'

    text = json.dumps(item)

    if feats.get('column_name_chain') and kind in (
            'column-missing', 'column-extra', 'index-missing',
            'index-extra', 'foreign-key-missing', 'foreign-key-extra') and \
       any('"%s"' % name in text or '"%s_id"' % name in text
           for name in feats.get('chain_names', [])):
        return 'optimizer-collapses-column-name-chain'

    if (feats.get('changefield_then_type_change') and
        kind in ('index-extra', 'index-missing', 'column-differs') and
        any('"%s"' % name in text
            for name in feats.get('type_change_names', []))):
        return 'optimizer-merges-changefield-across-type-change'

    if kind in ('index-missing', 'index-extra'):
        if feats.get('index_and_column_changed') and len(item[1]) == 1:
            return 'index-and-column-name-changed-in-one-run'

        if feats.get('constraints_changed_twice') and item[0] == 1:
            return 'constraints-changed-twice-in-one-run'

        if kind == 'index-missing' and ctx.get('duplicates', {}).get(
                table) and list(item) in ctx['duplicates'][table]:
            return 'second-index-on-same-columns-skipped'

    if ctx.get('relation_type_change'):
        return 'type-change-across-relation-kinds'

    if kind in ('index-missing', 'index-extra') and len(item[1]) == 1:
        key = [table, item[1][0]]

        if (kind == 'index-missing' and
            item[1][0] in (ctx['tables'].get(table) or {}).get(
                'positive', []) and
            key in [list(k) for k in ctx.get('checked_db_index', [])]):
            return 'check-constraint-taken-for-index'

        if (key in [list(k) for k in ctx.get('late_db_index', [])] and
            table in ctx['rebuilt']):
            return 'db-index-change-after-rebuild-op-ignored'

    if table in ctx.get('m2m_tables', []) and ctx.get('renamed_ids'):
        text = json.dumps(item)

        if any('"%s"' % name in text for name in ctx['renamed_ids']):
            return 'rename-model-keeps-m2m-column-names'

    if (kind == 'index-extra' and len(item[1]) > 1 and
        any(col in ctx.get('renamed_cols', []) for col in item[1])):
        return 'index-on-renamed-column-not-dropped'

    if (table in ctx.get('ut_deleted', []) and
        kind in ('index-missing', 'index-extra') and item[0] == 1):
        return 'unique-together-member-deleted-in-same-run'

    return None


def explain_schema_diff(diff, final_sig, rebuilt_tables, symmetric=False,
                        muts=None, batched=True):
    """``{'atoms': [...], 'causes': [...]}`` for a schema diff.

    ``symmetric``: the diff compares two evolved databases (not evolved vs
    fresh), so an object may be lost on either side.
    """
    ctx = schema_ctx(final_sig, rebuilt_tables)
    ctx['batched'] = batched
    _scenario_facts(ctx, final_sig, muts)
    ctx['duplicates'] = {}

    for entry in diff:
        if entry['what'] == 'indexes':
            expected = entry['expected']
            ctx['duplicates'][entry['table']] = [
                item for item in expected if expected.count(item) > 1]

    atoms = schema_atoms(diff)
    causes = set()

    for atom in atoms:
        if atom['table'] in ctx.get('ut_deleted', []):
            atom['cause'] = (classify_by_scenario(atom, ctx) or
                             classify_schema_atom(atom, ctx))
        else:
            atom['cause'] = (classify_schema_atom(atom, ctx) or
                             classify_by_scenario(atom, ctx))

        if (atom['cause'] is None and symmetric and
            atom['kind'].endswith('-extra')):
            mirrored = dict(atom, kind=atom['kind'][:-6] + '-missing')
            atom['cause'] = classify_schema_atom(mirrored, ctx)

        causes.add(atom['cause'] or '?')

    return {'atoms': atoms, 'causes': sorted(causes),
            'rebuilt': ctx['rebuilt']}


# ---------------------------------------------------------------------------
# Worker pool
# ---------------------------------------------------------------------------

_EVALS = {}


def _eval_task(task):
    suite_id, scenario = task

    try:
        _setup()
        outcome = _EVALS[suite_id](scenario)
    except Exception as e:  # harness/oracle bug, never a property failure
        outcome = {'nontrivial': False, 'skipped': 'internal-error',
                   'failures': [],
                   'internal_error': '%s: %s\n%s' % (
                       type(e).__name__, e, traceback.format_exc()[-1500:])}

    return outcome


def _map(suite_id, scenarios, workers=None, deadline=None):
    """Evaluate scenarios (a list) in a fork pool; yields (scenario, out)."""
    _setup()
    scenarios = list(scenarios)
    tasks = [(suite_id, scenario) for scenario in scenarios]

    if workers is None:
        workers = min(MAX_WORKERS, os.cpu_count() or 1)

    if workers <= 1 or len(tasks) < 8:
        for task in tasks:
            if deadline is not None and time.time() > deadline:
                break

            yield task[1], _eval_task(task)

        return

    ctx = multiprocessing.get_context('fork')
    pool = ctx.Pool(workers)

    try:
        chunk = max(1, min(16, len(tasks) // (workers * 8) or 1))
        index = 0

        for outcome in pool.imap(_eval_task, tasks, chunksize=chunk):
            yield scenarios[index], outcome
            index += 1

            if deadline is not None and time.time() > deadline:
                break
    finally:
        pool.terminate()
        pool.join()


def _known_match(known_list, clause, scenario, observed):
    for entry in known_list:
        clauses = entry['clause']

        if isinstance(clauses, str):
            clauses = [clauses]

        if clause not in clauses:
            continue

        pred = entry.get('pred')

        try:
            if pred is None or pred(scenario, observed):
                return entry
        except Exception:
            continue

    return None


def _collect(suite_id, scenarios, known_list, rule, exhaustive, t0,
             budget=None, workers=None):
    """Run scenarios, gather the suite result dict."""
    evaluations = 0
    nontrivial = set()
    failures = []
    failure_counts = {}
    samples = []
    skipped = {}
    internal = []
    deadline = (t0 + budget) if budget else None
    total = len(scenarios)
    truncated = False

    for scenario, outcome in _map(suite_id, scenarios, workers=workers,
                                  deadline=deadline):
        evaluations += 1
        key = json.dumps(scenario, sort_keys=True, default=repr)

        if outcome.get('internal_error'):
            if len(internal) < 3:
                internal.append({'inputs': scenario,
                                 'error': outcome['internal_error']})

        if outcome.get('skipped'):
            skipped[outcome['skipped']] = \
                skipped.get(outcome['skipped'], 0) + 1

        if outcome.get('nontrivial'):
            nontrivial.add(key)

        for clause, observed in outcome.get('failures', []):
            entry = _known_match(known_list, clause, scenario, observed)
            tag = '%s%s' % (clause, ':known:' + entry['id'] if entry else '')
            failure_counts[tag] = failure_counts.get(tag, 0) + 1
            record = {'clause': clause, 'inputs': scenario,
                      'observed': H.to_jsonable(observed),
                      'known': entry is not None}

            if entry is not None:
                record['known_id'] = entry['id']

            # Keep at most MAX_FAILURES, preferring unknown ones and one
            # witness per (clause, known id).
            failures.append(record)

        if len(samples) < 3 and outcome.get('nontrivial') and (
                len(samples) < 2 or outcome.get('failures')):
            samples.append({'inputs': scenario,
                            'outcome': H.to_jsonable(
                                outcome.get('summary') or
                                {'failures': [c for c, _o in
                                              outcome.get('failures', [])]})})

    if evaluations < total:
        truncated = True

    # Long random sequences trip several recorded defects at once, which the
    # per-difference attribution cannot take apart.  An unexplained failure
    # of such a sequence is first reduced (dropping one mutation at a time
    # while the same clause keeps failing unexplained); what remains is
    # classified again.  Explained => the original is an instance of that
    # recorded class; still unexplained => it is reported, with the reduced
    # input attached.
    reduced_budget = 8

    for record in failures:
        if record['known'] or reduced_budget <= 0:
            continue

        muts = (record['inputs'] or {}).get('muts')

        if not isinstance(muts, list) or len(muts) <= 4:
            continue

        reduced_budget -= 1
        verdict = _reduce_and_classify(suite_id, known_list, record)

        if verdict is not None:
            record.update(verdict)

    def size(record):
        return len(json.dumps(record['inputs'], default=repr))

    unknown = sorted([f for f in failures if not f['known']], key=size)
    known = sorted([f for f in failures if f['known']], key=size)
    picked = []
    seen = set()

    for record in unknown + known:
        tag = (record['clause'], record.get('known_id'))

        if tag in seen and record['known']:
            continue

        if tag in seen and len(picked) >= MAX_FAILURES // 2:
            continue

        seen.add(tag)
        picked.append(record)

        if len(picked) >= MAX_FAILURES:
            break

    witnesses = {}

    for record in known:
        tag = '%s|%s' % (record['clause'], record.get('known_id'))

        if tag not in witnesses:
            witnesses[tag] = record['inputs']

    return {
        'evaluations': evaluations,
        'distinct_nontrivial': len(nontrivial),
        'known_witnesses': witnesses,
        'failures': picked,
        'failure_counts': failure_counts,
        'unknown_failures': len(unknown),
        'known_failures': len(known),
        'samples': samples,
        'exhaustive': bool(exhaustive and not truncated),
        'truncated': truncated,
        'planned': total,
        'skipped': skipped,
        'internal_errors': internal,
        'rule': rule,
        'elapsed': round(time.time() - t0, 2),
    }


def _reduce_and_classify(suite_id, known_list, record, max_evals=150):
    clause = record['clause']
    cur = copy.deepcopy(record['inputs'])
    evals = [0]

    def unexplained(scenario):
        evals[0] += 1
        out = _eval_task((suite_id, scenario))
        hits = [(c, o) for c, o in out.get('failures', []) if c == clause]

        if not hits:
            return None

        entries = [_known_match(known_list, c, scenario, o) for c, o in hits]

        return entries

    changed = True

    while changed and evals[0] < max_evals:
        changed = False

        for index in range(len(cur['muts'])):
            cand = copy.deepcopy(cur)
            del cand['muts'][index]
            entries = unexplained(cand)

            if entries is not None and any(e is None for e in entries):
                cur = cand
                changed = True
                break

            if evals[0] >= max_evals:
                break

    entries = unexplained(cur)

    if entries and all(e is not None for e in entries):
        return {'known': True, 'known_id': entries[0]['id'],
                'reduced_to': cur['muts']}

    if len(cur['muts']) <= 4:
        # a short sequence that fails unexplained: reported as it is
        return {'reduced_to': cur['muts']}

    # Still long: every further removal either repairs the clause or leaves
    # an explained failure, i.e. the sequence combines recorded defects.
    # Reduce on "the clause fails" alone and classify the core.
    changed = True

    while changed and evals[0] < 2 * max_evals:
        changed = False

        for index in range(len(cur['muts'])):
            cand = copy.deepcopy(cur)
            del cand['muts'][index]
            entries = unexplained(cand)

            if entries is not None:
                cur = cand
                changed = True
                break

    entries = unexplained(cur)

    if entries and all(e is not None for e in entries):
        return {'known': True, 'known_id': entries[0]['id'],
                'reduced_to': cur['muts'], 'compound': True}

    return {'reduced_to': cur['muts']}


def _replay(suite_id, inputs, clause=None):
    _setup()
    out = _eval_task((suite_id, inputs))
    clauses = sorted(set(c for c, _o in out['failures']))
    known_list = {'C01': KNOWN_C01, 'C02': KNOWN_C02, 'C03': KNOWN_C03,
                  'C18': KNOWN_C18}[suite_id]
    failures = []

    for failed_clause, observed in out['failures']:
        entry = _known_match(known_list, failed_clause, inputs, observed)
        failures.append({'clause': failed_clause,
                         'observed': H.to_jsonable(observed),
                         'known': entry is not None,
                         'known_id': entry['id'] if entry else None})

    return {'reproduced': (clause in clauses) if clause else bool(clauses),
            'clauses': clauses,
            'failures': failures,
            'skipped': out.get('skipped'),
            'internal_error': out.get('internal_error')}


# ---------------------------------------------------------------------------
# Mutation sequence space (shared by C03 and C18; re-used by C01/C02)
# ---------------------------------------------------------------------------

#: Start models of the sequence space: two related models and a bystander
#: (``Z``) that no mutation ever names or relates to.
SEQ_SPEC = OrderedDict([
    ('A', {'fields': OrderedDict([
        ('a1', ['CharField', {'max_length': 20}]),
        ('a2', ['IntegerField', {'null': True}]),
        ('a3', ['CharField', {'max_length': 10, 'null': True}]),
    ]), 'meta': {}}),
    ('B', {'fields': OrderedDict([
        ('b1', ['IntegerField', {}]),
        ('ref', ['ForeignKey', {'to': 'A', 'null': True}]),
    ]), 'meta': {}}),
    ('Z', {'fields': OrderedDict([
        ('z1', ['CharField', {'max_length': 8, 'unique': True}]),
        ('z2', ['IntegerField', {'db_index': True}]),
    ]), 'meta': {}}),
])

SEQ_ROWS = OrderedDict([
    ('A', [
        {'a1': 'first', 'a2': 1, 'a3': 'x'},
        {'a1': "it's 100%", 'a2': None, 'a3': None},
        {'a1': '', 'a2': -2147483648, 'a3': 'q"uote'},
    ]),
    ('B', [
        {'b1': 10, 'ref': 1},
        {'b1': -5, 'ref': None},
    ]),
    ('Z', [
        {'z1': 'z-one', 'z2': 1},
        {'z1': '%s', 'z2': 2},
    ]),
])

_BARRIER_SIM = ['SQLMutation', 'barrier', ['SELECT 1;'], 'sim']
_BARRIER_NOSIM = ['SQLMutation', 'barrier_nosim', ['SELECT 1;'], 'nosim']

_REL = ('ForeignKey', 'OneToOneField', 'ManyToManyField')


class SeqState(object):
    """Light-weight model of the signature, only used to PROPOSE mutations.

    Whether a proposed sequence really is valid is always decided by the
    real simulation (``sim_valid``) and the real one-at-a-time run.
    """

    #: names a model may be renamed to: one that sorts after and one that
    #: sorts before the other model names.
    RENAME_TARGETS = {'A': 'C', 'B': 'Aa', 'C': 'A', 'Aa': 'B'}

    def __init__(self, spec, protected=('Z',)):
        self.models = OrderedDict()
        self.protected = set(protected)
        self.graveyard = {}

        for name, model_spec in spec.items():
            self.models[name] = {
                'table': (model_spec.get('meta') or {}).get(
                    'db_table', 'tests_%s' % name.lower()),
                'fields': OrderedDict(
                    (fname, [info[0], dict(info[1])])
                    for fname, info in model_spec['fields'].items()),
                'meta': dict(model_spec.get('meta') or {}),
            }

    def clone(self):
        return copy.deepcopy(self)

    # -- bookkeeping ----------------------------------------------------
    def apply(self, desc):
        kind = desc[0]
        models = self.models

        if kind == 'AddField':
            kwargs = dict(desc[4])
            kwargs.pop('initial', None)
            related = kwargs.pop('related_model', None)

            if related:
                kwargs['to'] = related.split('.')[1]

            models[desc[1]]['fields'][desc[2]] = [desc[3], kwargs]
        elif kind == 'ChangeField':
            info = models[desc[1]]['fields'][desc[2]]
            kwargs = dict(desc[3])
            kwargs.pop('initial', None)
            field_type = kwargs.pop('field_type', None)

            if field_type:
                info[0] = field_type
                info[1] = kwargs
            else:
                info[1].update(kwargs)
        elif kind == 'DeleteField':
            del models[desc[1]]['fields'][desc[2]]
            self.graveyard.setdefault(desc[1], []).append(desc[2])
        elif kind == 'RenameField':
            fields = models[desc[1]]['fields']
            models[desc[1]]['fields'] = OrderedDict(
                (desc[3] if name == desc[2] else name, info)
                for name, info in fields.items())
            meta = models[desc[1]]['meta']

            for prop in ('unique_together', 'index_together'):
                if meta.get(prop):
                    meta[prop] = [[desc[3] if f == desc[2] else f
                                   for f in item] for item in meta[prop]]
        elif kind == 'ChangeMeta':
            models[desc[1]]['meta'][desc[2]] = desc[3]
        elif kind == 'RenameModel':
            self.models = OrderedDict(
                (desc[2] if name == desc[1] else name, info)
                for name, info in models.items())
            self.models[desc[2]]['table'] = desc[3]

            if desc[1] in self.graveyard:
                self.graveyard[desc[2]] = self.graveyard.pop(desc[1])

            for info in self.models.values():
                for finfo in info['fields'].values():
                    if finfo[1].get('to') == desc[1]:
                        finfo[1]['to'] = desc[2]
        elif kind == 'DeleteModel':
            del models[desc[1]]
        elif kind == 'DeleteApplication':
            self.models = OrderedDict()

    def referenced(self, model_name):
        for name, info in self.models.items():
            for finfo in info['fields'].values():
                if finfo[1].get('to') == model_name and name != model_name:
                    return True

        return False

    # -- proposals ------------------------------------------------------
    def candidates(self, level):
        """All proposed next mutations for this state.

        Levels: 'mini' (model A only, few kinds), 'core', 'full'.
        """
        result = []
        full = level == 'full'
        mini = level == 'mini'

        for mname, minfo in self.models.items():
            if mname in self.protected:
                continue

            if mini and mname not in ('A', 'C'):
                # Only two mutations touch the second model in 'mini'.
                if 'b1' in minfo['fields']:
                    result.append(['DeleteField', mname, 'b1'])

                continue

            fields = minfo['fields']
            plain = [f for f, info in fields.items() if info[0] not in _REL]
            grave = [g for g in self.graveyard.get(mname, [])
                     if g not in fields]

            # AddField
            add_names = [n for n in ['x', 'y'] if n not in fields]

            if grave:
                add_names.append(grave[0])

            for i, name in enumerate(add_names[:2 if not full else 3]):
                if i == 0 or full:
                    result.append(['AddField', mname, name, 'IntegerField',
                                   {'initial': 7}])

                if i == 1 or full or (mini and i == 0):
                    result.append(['AddField', mname, name, 'CharField',
                                   {'max_length': 8, 'initial': "i'%"}])

                if full:
                    result.append(['AddField', mname, name, 'CharField',
                                   {'max_length': 8, 'null': True}])

            if full and 'lnk' not in fields:
                others = [o for o in self.models
                          if o != mname and o not in self.protected]

                for other in others[:1]:
                    result.append(['AddField', mname, 'lnk', 'ForeignKey',
                                   {'null': True,
                                    'related_model': 'tests.%s' % other}])
                    result.append(['AddField', mname, 'lnk',
                                   'ManyToManyField',
                                   {'related_model': 'tests.%s' % other}])

            meta_now = minfo['meta']
            # Fields referenced by Meta options.  RenameField never rewrites
            # Meta and DeleteField only rewrites unique_together, so naming
            # such a field would describe an inconsistent model (nothing to
            # compare against): those proposals are left out.
            in_unique_together = set(
                f for item in (meta_now.get('unique_together') or [])
                for f in item)
            in_other_meta = set(
                f for item in (meta_now.get('index_together') or [])
                for f in item)

            for item in (meta_now.get('indexes') or []):
                in_other_meta.update(item.get('fields') or [])

            for item in (meta_now.get('constraints') or []):
                in_other_meta.update(item.get('fields') or [])

            for fname in list(fields):
                ftype, kwargs = fields[fname]
                is_rel = ftype in _REL
                meta_ref = (fname in in_unique_together or
                            fname in in_other_meta)

                if not is_rel:
                    if kwargs.get('null'):
                        init = ('n%' if ftype in ('CharField', 'TextField')
                                else 5)
                        result.append(['ChangeField', mname, fname,
                                       {'null': False, 'initial': init}])
                    elif full:
                        result.append(['ChangeField', mname, fname,
                                       {'null': True}])

                    if ftype == 'CharField' and not mini:
                        result.append(['ChangeField', mname, fname,
                                       {'max_length':
                                        kwargs.get('max_length', 10) + 5}])

                    if full:
                        result.append(['ChangeField', mname, fname,
                                       {'db_index':
                                        not kwargs.get('db_index', False)}])
                        result.append(['ChangeField', mname, fname,
                                       {'unique':
                                        not kwargs.get('unique', False)}])

                        if not kwargs.get('db_column'):
                            result.append(['ChangeField', mname, fname,
                                           {'db_column': 'c_%s' % fname}])

                        if ftype == 'CharField':
                            result.append(['ChangeField', mname, fname,
                                           {'field_type': 'TextField',
                                            'null': kwargs.get('null',
                                                               False)}])
                        elif ftype == 'IntegerField':
                            result.append(['ChangeField', mname, fname,
                                           {'field_type': 'CharField',
                                            'max_length': 12,
                                            'null': kwargs.get('null',
                                                               False)}])

                if ((ftype != 'ManyToManyField' or full) and
                    fname not in in_other_meta):
                    result.append(['DeleteField', mname, fname])

                if meta_ref:
                    continue

                if not mini or fname in ('a2', 'x', 'r'):
                    targets = ['r'] if 'r' not in fields else ['x']
                    targets += grave[:1]

                    for target in targets[:2 if not mini else 1]:
                        if target not in fields and target != fname:
                            result.append(['RenameField', mname, fname,
                                           target, {}])

                    if full and not is_rel and 'r' not in fields:
                        result.append(['RenameField', mname, fname, 'r',
                                       {'db_column': 'col_r'}])

            # ChangeMeta
            meta = minfo['meta']

            if meta.get('unique_together'):
                result.append(['ChangeMeta', mname, 'unique_together', []])
            elif len(plain) >= 2:
                result.append(['ChangeMeta', mname, 'unique_together',
                               [[plain[0], plain[-1]]]])

            if full:
                if meta.get('index_together'):
                    result.append(['ChangeMeta', mname, 'index_together',
                                   []])
                elif len(plain) >= 2:
                    result.append(['ChangeMeta', mname, 'index_together',
                                   [[plain[0], plain[1]]]])

                if meta.get('indexes'):
                    result.append(['ChangeMeta', mname, 'indexes', []])
                elif plain:
                    result.append(['ChangeMeta', mname, 'indexes',
                                   [{'fields': [plain[0]],
                                     'name': 'ix_%s' % mname.lower()}]])

                if meta.get('constraints'):
                    result.append(['ChangeMeta', mname, 'constraints', []])
                elif plain:
                    result.append(['ChangeMeta', mname, 'constraints',
                                   [{'type': {'__cls__': 'UniqueConstraint'},
                                     'name': 'uc_%s' % mname.lower(),
                                     'fields': [plain[0]]}]])

            # RenameModel / DeleteModel
            target = self.RENAME_TARGETS.get(mname)

            if target and target not in self.models:
                result.append(['RenameModel', mname, target,
                               'tests_%s' % target.lower()])

                if full:
                    result.append(['RenameModel', mname, target,
                                   minfo['table']])

            if not mini and not self.referenced(mname):
                result.append(['DeleteModel', mname])

        if not mini or True:
            result.append(list(_BARRIER_SIM))

        if full:
            result.append(list(_BARRIER_NOSIM))

        return result


def enum_sequences(spec, level, max_len):
    """Exhaustively enumerate proposed sequences of length 1..max_len."""
    result = []

    def rec(state, prefix):
        for desc in state.candidates(level):
            seq = prefix + [desc]
            result.append(seq)

            if len(seq) < max_len:
                nxt = state.clone()

                try:
                    nxt.apply(desc)
                except Exception:
                    continue

                rec(nxt, seq)

    rec(SeqState(spec), [])

    return result


def random_sequence(spec, level, length, rng):
    state = SeqState(spec)
    seq = []

    for _i in range(length):
        cands = state.candidates(level)

        if not cands:
            break

        # Bias towards field level mutations, keep model level ones rare.
        weights = [0.25 if c[0] in ('DeleteModel', 'SQLMutation') else
                   0.5 if c[0] == 'RenameModel' else 1.0 for c in cands]
        desc = rng.choices(cands, weights=weights, k=1)[0]
        seq.append(desc)

        try:
            state.apply(desc)
        except Exception:
            break

    return seq


def _dedup(seqs):
    seen = set()
    result = []

    for seq in seqs:
        key = json.dumps(seq, sort_keys=True)

        if key not in seen:
            seen.add(key)
            result.append(seq)

    return result


# ---------------------------------------------------------------------------
# Shared comparison helpers
# ---------------------------------------------------------------------------

def _canon(value):
    return json.dumps(H.to_jsonable(value), sort_keys=True, default=repr)


def _sig_equal(sig_a, sig_b):
    """Equality of two simplified (normalised) signatures, order-free."""
    return _canon(sig_a) == _canon(sig_b)


def _sig_delta(sig_a, sig_b):
    """Small JSON-able description of where two simplified sigs differ."""
    delta = {}
    sig_a = H.to_jsonable(sig_a) or {}
    sig_b = H.to_jsonable(sig_b) or {}

    for model in sorted(set(sig_a) | set(sig_b)):
        if model not in sig_a or model not in sig_b:
            delta[model] = ('only-in-second' if model not in sig_a
                            else 'only-in-first')
            continue

        fa, fb = sig_a[model]['fields'], sig_b[model]['fields']

        for field in sorted(set(fa) | set(fb)):
            if _canon(fa.get(field)) != _canon(fb.get(field)):
                delta['%s.%s' % (model, field)] = [fa.get(field),
                                                   fb.get(field)]

        if _canon(sig_a[model]['meta']) != _canon(sig_b[model]['meta']):
            ma, mb = sig_a[model]['meta'], sig_b[model]['meta']
            delta['%s.Meta' % model] = dict(
                (key, [ma.get(key), mb.get(key)])
                for key in set(ma) | set(mb)
                if _canon(ma.get(key)) != _canon(mb.get(key)))

    return delta


def _rows_delta(rows_a, rows_b):
    a, b = rows_by_name(rows_a), rows_by_name(rows_b)
    delta = {}

    for table in sorted(set(a) | set(b)):
        if _canon(a.get(table)) != _canon(b.get(table)):
            delta[table] = {'first': a.get(table), 'second': b.get(table)}

    return delta


def _err_brief(error):
    if error is None:
        return None

    return dict((key, error.get(key))
                for key in ('class', 'message', 'phase', 'group',
                            'failed_statement', 'wrapped_in')
                if error.get(key) is not None)


def _compare_outcomes(first, second, prefix, failures, first_name,
                      second_name, muts=None, spec=None):
    """Append '<prefix>-signature/-schema/-rows' failures on difference."""
    if not _sig_equal(first['final_sig'], second['final_sig']):
        failures.append((prefix + '-signature', {
            'differs': '%s vs %s' % (first_name, second_name),
            'delta': _sig_delta(first['final_sig'], second['final_sig'])}))

    diff = schema_diff(first['schema'], second['schema'])

    if diff:
        rebuilt = set(first.get('rebuilds') or {}) | \
            set(second.get('rebuilds') or {})

        if spec is not None and muts is not None:
            rebuilt = _expand_rebuilt(spec, muts,
                                      dict((t, 1) for t in rebuilt))
        failures.append((prefix + '-schema', dict({
            'differs': '%s (actual) vs %s (expected)'
                       % (first_name, second_name),
            'diff': diff},
            **explain_schema_diff(diff, second['final_sig'], rebuilt,
                                  symmetric=True, muts=muts))))

    delta = _rows_delta(first['rows'], second['rows'])

    if delta:
        failures.append((prefix + '-rows', {
            'differs': '%s (first) vs %s (second)'
                       % (first_name, second_name),
            'delta': delta}))


def _split_evolutions(muts, parts):
    """Spread mutations over ``parts`` evolutions (labels e0, e1, ...)."""
    parts = max(1, min(parts, len(muts)))
    size = (len(muts) + parts - 1) // parts
    result = []

    for i in range(parts):
        chunk = muts[i * size:(i + 1) * size]

        if chunk:
            result.append(('e%d' % i, chunk))

    return result


# ---------------------------------------------------------------------------
# C03 - optimising a mutation sequence never changes its outcome
# ---------------------------------------------------------------------------

def eval_C03(sc):
    spec, rows, muts = sc['spec'], sc.get('rows'), sc['muts']
    out = {'nontrivial': False, 'skipped': None, 'failures': [],
           'summary': {}}

    ok, error = sim_valid(spec, muts)

    if not ok:
        out['skipped'] = 'simulation-invalid'
        return out

    single = run(spec, [[m] for m in muts], rows)

    if single['error'] is not None:
        out['skipped'] = 'one-at-a-time-rejected:%s' % single['error']['class']
        return out

    out['nontrivial'] = len(muts) >= 2
    failures = out['failures']

    # -- bare AppMutator, all mutations in one optimised run ---------------
    objs = mks(muts)
    before = [mutation_fingerprint(m) for m in objs]
    before_desc = [desc_of(m) for m in objs]
    first = run(spec, [objs], rows)
    after = [mutation_fingerprint(m) for m in objs]

    if first['error'] is not None:
        failures.append(('batched-accepted', {
            'error': _err_brief(first['error'])}))
    else:
        _compare_outcomes(first, single, 'batched-same', failures,
                          'optimised run', 'one at a time', muts=muts,
                          spec=spec)

    if before != after:
        failures.append(('definitions-unaltered', {
            'changed': [
                {'index': i, 'before': before_desc[i],
                 'after': desc_of(objs[i])}
                for i in range(len(objs)) if before[i] != after[i]
            ]}))

    # -- the same definitions (objects) processed again --------------------
    if sc.get('rerun', True):
        second = run(spec, [objs], rows)
        same = ((first['error'] is None) == (second['error'] is None))
        observed = {}

        if not same:
            observed['errors'] = [_err_brief(first['error']),
                                  _err_brief(second['error'])]
        elif first['error'] is None:
            sub = []
            _compare_outcomes(second, first, 'x', sub, 'second processing',
                              'first processing')

            if sub:
                observed['differences'] = [
                    {'what': clause[2:], 'detail': detail}
                    for clause, detail in sub]
        elif first['error']['class'] != second['error']['class']:
            observed['errors'] = [_err_brief(first['error']),
                                  _err_brief(second['error'])]

        if observed:
            failures.append(('rerun-same-result', observed))

    # -- the real Evolver task pipeline -------------------------------------
    if sc.get('evolver', True):
        for parts in sc.get('evolver_parts', [1]):
            ev = run_evolver(spec, _split_evolutions(muts, parts), rows)

            if ev['error'] is not None:
                failures.append(('evolver-accepted', {
                    'evolutions': parts,
                    'error': _err_brief(ev['error'])}))
            else:
                _compare_outcomes(ev, single, 'evolver-same', failures,
                                  'Evolver pipeline (%d evolution(s))'
                                  % parts, 'one at a time', muts=muts,
                                  spec=spec)

    altered = before != after
    also = sorted(set(c for c, _o in failures))

    for _clause, observed in failures:
        observed['altered'] = altered
        observed['also_failed'] = also
        observed.setdefault('rebuilds_before_failure',
                            dict(first['rebuilds'])
                            if first['error'] is not None else {})

    out['summary'] = {
        'length': len(muts),
        'failed_clauses': sorted(set(c for c, _o in failures)),
        'rebuilds_single': dict(single['rebuilds']),
        'rebuilds_batched': dict(first['rebuilds']),
    }

    return out


_EVALS['C03'] = eval_C03


def _seq_scenarios(tier, seed, purpose):
    """The C03 space of mutation sequences (also used by C18).

    Returns ``(sequences, tags, group descriptions, exhaustive)``; tag
    'bulk' marks the big exhaustive length-4 block (the Evolver pipeline is
    only run on a fraction of it).
    """
    rng = random.Random(seed)
    quick = tier == 'quick'
    groups = []

    if quick:
        exhaustive = [('mini', 3), ('core', 1)]
        sampled = [('core', 2, 260), ('full', 2, 120)]
        randoms = [(60, 'core', (3, 6)), (60, 'full', (4, 12))]
    else:
        exhaustive = [('mini', 4), ('core', 2), ('full', 1)]
        sampled = [('core', 3, 1500), ('full', 2, 1500)]
        randoms = [(800, 'core', (4, 12)), (1200, 'full', (4, 12))]

    seqs = []
    tags = {}

    for level, max_len in exhaustive:
        part = enum_sequences(SEQ_SPEC, level, max_len)
        groups.append('exhaustive %s<=%d: %d' % (level, max_len, len(part)))
        seqs.extend(part)

        if max_len >= 4:
            for seq in part:
                if len(seq) >= 4:
                    tags[json.dumps(seq, sort_keys=True)] = 'bulk'

    for level, max_len, count in sampled:
        part = [seq for seq in enum_sequences(SEQ_SPEC, level, max_len)
                if len(seq) == max_len]
        part = rng.sample(part, min(count, len(part)))
        groups.append('sample of %s len %d: %d' % (level, max_len,
                                                   len(part)))
        seqs.extend(part)

    for count, level, (lo, hi) in randoms:
        part = [random_sequence(SEQ_SPEC, level, rng.randint(lo, hi), rng)
                for _i in range(count)]
        groups.append('random %s len %d-%d: %d' % (level, lo, hi,
                                                   len(part)))
        seqs.extend(part)

    seqs = _dedup(seqs)
    tag_list = [tags.get(json.dumps(seq, sort_keys=True), '')
                for seq in seqs]

    return seqs, tag_list, groups, bool(exhaustive)


KNOWN_C03 = []

RULE_C03 = (
    'Start models A(a1 char, a2 int null, a3 char null), B(b1 int, ref '
    'FK->A null), bystander Z, 3+2+2 rows.  Sequences are proposed by a '
    'state tracking generator (SeqState: AddField incl. re-use of deleted '
    'names, ChangeField null/max_length[/db_index/unique/db_column/type], '
    'DeleteField, RenameField[+db_column], ChangeMeta unique_together'
    '[/index_together/indexes/constraints], RenameModel to a name sorting '
    'before/after, DeleteModel, SQLMutation barriers with[/without] '
    'update_func; [..] only in level "full"), exhaustively for the listed '
    '(level, length) pairs plus seeded samples/random walks.  A sequence '
    'is skipped when the pure one-by-one simulation or the real '
    'one-mutation-per-AppMutator run rejects it.  Non-trivial = accepted '
    'one at a time and length >= 2.  Clauses: batched-accepted, '
    'batched-same-{signature,schema,rows}, definitions-unaltered (vars() '
    'of every mutation object before/after processing), rerun-same-result '
    '(the same objects through a second AppMutator on a fresh database), '
    'evolver-accepted / evolver-same-* (Evolver + EvolveAppTask: prepare() '
    'then _build_batches(), mutations spread over 1 or 2 evolutions).'
)


def suite_C03(tier='quick', seed=0):
    t0 = time.time()
    _setup()
    seqs, tags, groups, exhaustive = _seq_scenarios(tier, seed, 'C03')
    scenarios = []

    for i, seq in enumerate(seqs):
        sc = {'spec': SEQ_SPEC, 'rows': SEQ_ROWS, 'muts': seq}

        if tier == 'quick':
            # The Evolver pipeline costs ~4 plain runs: every 3rd scenario.
            sc['evolver'] = (i % 3 == 0)
            sc['evolver_parts'] = [1 if i % 2 else 2]
        elif tags[i] == 'bulk':
            sc['evolver'] = (i % 8 == 0)
            sc['evolver_parts'] = [2]
        else:
            sc['evolver_parts'] = [1, 2] if len(seq) >= 2 else [1]

        scenarios.append(sc)

    result = _collect('C03', scenarios, KNOWN_C03,
                      RULE_C03 + '  Scope: ' + '; '.join(groups),
                      exhaustive, t0,
                      budget=55 if tier == 'quick' else 14 * 60)

    return result


def replay_C03(inputs, clause=None):
    """Re-run ONE scenario; ``reproduced`` = some clause (or ``clause``, if
    given) still fails on the tree under test."""
    return _replay('C03', inputs, clause)



# ---------------------------------------------------------------------------
# Row helpers shared by C01 / C02
# ---------------------------------------------------------------------------

_TYPE_VALUES = {
    'CharField': ['plain', '', "it's", '100%', 'dq"uote', '%s %d'],
    'TextField': ['text', '', "o'text", '50% off', 'line\nbreak', '%(x)s'],
    'IntegerField': [1, 0, -1, 2147483647, -2147483648, 42],
    'BigIntegerField': [9223372036854775807, 0, -9223372036854775808, 5,
                        -5, 1099511627776],
    'PositiveIntegerField': [0, 1, 2147483647, 7, 8, 9],
    'BooleanField': [1, 0, 1, 0, 1, 0],
    'DecimalField': [12.5, 0, -0.25, 9999.99, -9999.99, 1],
    'DateTimeField': ['2020-01-02 03:04:05', '1970-01-01 00:00:00',
                      '2038-01-19 03:14:07.999999', '2000-02-29 12:00:00',
                      '1999-12-31 23:59:59', '2024-06-30 00:00:00.000001'],
}

_TYPE_INITIAL = {
    'CharField': 'ini',
    'TextField': "t'x%t",
    'IntegerField': 3,
    'BigIntegerField': 1099511627776,
    'PositiveIntegerField': 4,
    'BooleanField': True,
    'DecimalField': 1.5,
    'DateTimeField': '2001-02-03 04:05:06',
    'ForeignKey': 1,
    'OneToOneField': 1,
}


def auto_rows(spec, count, null_every=3, safe=False):
    """Deterministic rows for every model of a spec.

    Unique columns get distinct values, nullable columns are NULL in every
    ``null_every``-th row (starting with the 2nd), relation columns point at
    row ``i`` of the target (which gets ``count`` rows as well) and
    auto-created many-to-many tables get one link per row.
    """
    rows = OrderedDict()
    m2m = OrderedDict()

    for model_name, model_spec in spec.items():
        table_rows = []
        table = (model_spec.get('meta') or {}).get(
            'db_table', 'tests_%s' % model_name.lower())

        for i in range(count):
            row = OrderedDict()

            for fname, (ftype, kwargs) in model_spec['fields'].items():
                if ftype == 'ManyToManyField':
                    if kwargs.get('through'):
                        continue

                    target = kwargs['to']
                    m2m_table = kwargs.get('db_table') or '%s_%s' % (table,
                                                                     fname)

                    if target in ('self', model_name):
                        cols = ('from_%s_id' % model_name.lower(),
                                'to_%s_id' % model_name.lower())
                    else:
                        cols = ('%s_id' % model_name.lower(),
                                '%s_id' % target.lower())

                    m2m.setdefault(m2m_table, []).append(OrderedDict([
                        (cols[0], i + 1), (cols[1], count - i)]))
                    continue

                nullable = kwargs.get('null')
                unique = kwargs.get('unique') or ftype == 'OneToOneField'

                if nullable and i % null_every == 1:
                    row[fname] = None
                elif ftype in ('ForeignKey', 'OneToOneField'):
                    row[fname] = i + 1
                else:
                    values = _TYPE_VALUES[ftype]
                    value = values[i % len(values)]

                    if unique and ftype in ('CharField', 'TextField'):
                        value = '%s#%d' % (value[:4], i)
                    elif unique and ftype == 'BooleanField':
                        value = i % 2
                    elif unique and ftype != 'DateTimeField':
                        value = i + 1 if ftype != 'DecimalField' else i + 0.5

                    if safe and not unique:
                        # distinct, non-negative: never trips a unique or
                        # ">= 0" check constraint of the start models
                        if ftype in ('CharField', 'TextField'):
                            value = '%d%s' % (i, value)
                        elif ftype in ('IntegerField', 'BigIntegerField',
                                       'PositiveIntegerField'):
                            value = abs(value) % 1000 + 10 * (i + 1)
                        elif ftype == 'DecimalField':
                            value = round(abs(value) % 100 + 200 * i, 2)

                    if ftype == 'CharField' and kwargs.get('max_length'):
                        value = value[:kwargs['max_length']]

                    row[fname] = value

            table_rows.append(row)

        rows[model_name] = table_rows

    for table, links in m2m.items():
        rows[table] = links

    return rows


_start_dump_cache = {}


def start_dump(spec, rows):
    """Raw rows of the freshly created + populated start tables (cached)."""
    key = _canon([spec, rows])

    if key not in _start_dump_cache:
        if len(_start_dump_cache) > 200:
            _start_dump_cache.clear()

        data = H.fresh_schema(dec_spec(spec), rows=_dec_rows(rows),
                              with_rows=True)
        _start_dump_cache[key] = data

    return _start_dump_cache[key]


def _veq(a, b):
    if a is None or b is None:
        return a is None and b is None

    num = (int, float, bool)

    if isinstance(a, num) and isinstance(b, num):
        return float(a) == float(b)

    return type(a) == type(b) and a == b


def _loose_eq(a, b):
    if a is None or b is None:
        return a is None and b is None

    if _veq(a, b):
        return True

    try:
        return float(a) == float(b)
    except (TypeError, ValueError):
        return str(a) == str(b)


def _initial_value(initial):
    """The value an ``initial`` description is expected to store."""
    if isinstance(initial, dict) and '__callable__' in initial:
        return initial.get('value')

    if isinstance(initial, bool):
        return int(initial)

    return initial


def _field_col(fname, finfo):
    ftype = finfo['type'].rsplit('.', 1)[1]

    if ftype == 'ManyToManyField':
        return None

    column = finfo['attrs'].get('db_column')

    if column:
        return column

    if ftype in ('ForeignKey', 'OneToOneField'):
        return fname + '_id'

    return fname


def _m2m_table(model_sig, fname, finfo):
    return (finfo['attrs'].get('db_table') or
            '%s_%s' % (model_sig['meta']['db_table'], fname))


class TrackerMismatch(Exception):
    pass


class RowTracker(object):
    """Follows field identities through a mutation sequence (the oracle's
    own, independent bookkeeping of what must survive)."""

    def __init__(self, start_sig):
        self.fields = {}     # (model, field) -> info
        self.tables = {}     # model -> start table (identity of the model)
        self.dropped = False

        for model, msig in start_sig.items():
            self.tables[model] = msig['meta']['db_table']

            for fname, finfo in msig['fields'].items():
                col = _field_col(fname, finfo)
                self.fields[(model, fname)] = {
                    'origin': ((msig['meta']['db_table'], col)
                               if col else None),
                    'm2m_origin': (_m2m_table(msig, fname, finfo)
                                   if col is None else None),
                    'added': False,
                    'new_value': None,
                    'nullfix': [],
                    'typechanged': False,
                    'nullable': bool(finfo['attrs'].get('null')),
                }

    def apply(self, desc):
        kind = desc[0]

        if kind == 'AddField':
            kwargs = desc[4] or {}
            is_m2m = desc[3] == 'ManyToManyField'
            self.fields[(desc[1], desc[2])] = {
                'origin': None, 'm2m_origin': None, 'added': True,
                'is_m2m': is_m2m,
                'new_value': _initial_value(kwargs.get('initial')),
                'nullfix': [], 'typechanged': False,
                'nullable': bool(kwargs.get('null')),
            }
        elif kind == 'ChangeField':
            info = self.fields[(desc[1], desc[2])]
            kwargs = desc[3] or {}

            if 'field_type' in kwargs:
                info['typechanged'] = True

            if 'null' in kwargs:
                if (kwargs['null'] is False and info['nullable'] and
                    kwargs.get('initial') is not None):
                    info['nullfix'].append(
                        _initial_value(kwargs['initial']))

                info['nullable'] = bool(kwargs['null'])
        elif kind == 'DeleteField':
            del self.fields[(desc[1], desc[2])]
        elif kind == 'RenameField':
            self.fields[(desc[1], desc[3])] = \
                self.fields.pop((desc[1], desc[2]))
        elif kind == 'RenameModel':
            for (model, fname) in list(self.fields):
                if model == desc[1]:
                    self.fields[(desc[2], fname)] = \
                        self.fields.pop((model, fname))

            self.tables[desc[2]] = self.tables.pop(desc[1])
        elif kind == 'DeleteModel':
            for key in list(self.fields):
                if key[0] == desc[1]:
                    del self.fields[key]

            self.tables.pop(desc[1], None)
        elif kind == 'DeleteApplication':
            self.fields.clear()
            self.tables.clear()


def check_rows(start_sig, final_sig, muts, start_rows, final_rows):
    """Evaluate the C02 clauses.  Returns ``(failures, checked_cells)``.

    ``start_rows`` / ``final_rows``: harness ``rows`` dumps.
    """
    tracker = RowTracker(start_sig)

    for desc in muts:
        tracker.apply(desc)

    failures = []
    checked = 0

    def table_rows(dump, table):
        data = dump.get(table)

        if data is None:
            return None

        cols = data['columns']
        result = OrderedDict()

        for row in data['rows']:
            item = dict(zip(cols, row))
            result[item.get('id', len(result))] = item

        return result

    # -- surviving tables keep their rows ---------------------------------
    for model, start_table in tracker.tables.items():
        if model not in final_sig:
            raise TrackerMismatch('model %s' % model)

        final_table = final_sig[model]['meta']['db_table']
        before = table_rows(start_rows, start_table) or OrderedDict()
        after = table_rows(final_rows, final_table)

        if after is None:
            failures.append(('row-count', {
                'table': final_table, 'problem': 'table missing',
                'model': model}))
            continue

        if list(before) != list(after):
            failures.append(('row-count', {
                'table': final_table, 'ids_before': list(before),
                'ids_after': list(after)}))

    # -- cell values --------------------------------------------------------
    for (model, fname), info in sorted(tracker.fields.items()):
        if model not in final_sig or fname not in final_sig[model]['fields']:
            raise TrackerMismatch('%s.%s' % (model, fname))

        finfo = final_sig[model]['fields'][fname]
        final_table = final_sig[model]['meta']['db_table']
        col = _field_col(fname, finfo)

        if col is None:
            # many-to-many: the link rows must survive (column names may
            # legitimately change, compare the value tuples).
            if info.get('m2m_origin'):
                final_m2m = _m2m_table(final_sig[model], fname, finfo)
                before = start_rows.get(info['m2m_origin'])
                after = final_rows.get(final_m2m)

                if before is None:
                    continue

                checked += len(before['rows'])

                if after is None:
                    failures.append(('m2m-rows', {
                        'field': '%s.%s' % (model, fname),
                        'problem': 'table %s missing' % final_m2m,
                        'tables': sorted(final_rows)}))
                elif (sorted(map(list, before['rows'])) !=
                      sorted(map(list, after['rows']))):
                    failures.append(('m2m-rows', {
                        'field': '%s.%s' % (model, fname),
                        'before': before['rows'], 'after': after['rows']}))

            continue

        after = table_rows(final_rows, final_table)

        if after is None:
            continue   # reported as row-count above

        start_table = tracker.tables[model]
        before = table_rows(start_rows, start_table) or OrderedDict()

        for row_id, old_row in before.items():
            if row_id not in after:
                continue   # reported as row-count

            new_row = after[row_id]

            if col not in new_row:
                failures.append(('column-present', {
                    'table': final_table, 'column': col,
                    'columns': sorted(new_row)}))
                break

            actual = new_row[col]
            checked += 1

            if info['added']:
                expected = info['new_value']
                clause = 'added-column-initial'
            else:
                expected = old_row[info['origin'][1]]
                clause = 'surviving-value-unchanged'

            for fix in info['nullfix']:
                if expected is None:
                    expected = fix

                    if not info['added']:
                        clause = 'null-replaced-by-initial'

            equal = (_loose_eq if info['typechanged'] else _veq)(actual,
                                                                 expected)

            if not equal:
                failures.append((clause, {
                    'table': final_table, 'column': col, 'row_id': row_id,
                    'expected': expected, 'actual': actual,
                    'field': '%s.%s' % (model, fname)}))
                break

    return failures, checked


# ---------------------------------------------------------------------------
# C01 - evolved schema equals the schema of freshly created models
# ---------------------------------------------------------------------------

_Z_MODEL = {'fields': OrderedDict([
    ('z1', ['CharField', {'max_length': 8, 'unique': True}]),
    ('z2', ['IntegerField', {'db_index': True}]),
]), 'meta': {'unique_together': [['z1', 'z2']]}}


def c01_base(rich):
    """Start models of the C01 catalogue: P (target), T (evolved), Z."""
    fields = OrderedDict([
        ('c', ['CharField', {'max_length': 20}]),
        ('i', ['IntegerField', {'null': True}]),
        ('u', ['CharField', {'max_length': 10, 'unique': True}]),
        ('x', ['IntegerField', {'db_index': True}]),
    ])
    meta = OrderedDict()

    if rich:
        fields['fk'] = ['ForeignKey', {'to': 'P', 'null': True}]
        fields['m'] = ['ManyToManyField', {'to': 'P'}]
        meta['unique_together'] = [['c', 'i']]
        meta['index_together'] = [['c', 'x']]
        meta['indexes'] = [
            {'fields': ['i'], 'name': 'ix_i'},
            {'fields': ['c'], 'name': 'ix_cond',
             'condition': {'__Q__': {'i__gte': 1}}},
        ]
        meta['constraints'] = [
            {'type': {'__cls__': 'UniqueConstraint'}, 'name': 'uq_xc',
             'fields': ['x', 'c']},
            {'type': {'__cls__': 'CheckConstraint'}, 'name': 'ck_i',
             'check': {'__Q__': {'i__gte': 0}}},
        ]

    return OrderedDict([
        ('P', {'fields': OrderedDict([
            ('name', ['CharField', {'max_length': 20, 'unique': True}]),
        ]), 'meta': {}}),
        ('T', {'fields': fields, 'meta': meta}),
        ('Z', copy.deepcopy(_Z_MODEL)),
    ])


_C01_TYPES = OrderedDict([
    ('CharField', {'max_length': 10}),
    ('TextField', {}),
    ('IntegerField', {}),
    ('BigIntegerField', {}),
    ('PositiveIntegerField', {}),
    ('BooleanField', {}),
    ('DecimalField', {'max_digits': 6, 'decimal_places': 2}),
    ('DateTimeField', {}),
    ('ForeignKey', {'to': 'P'}),
    ('OneToOneField', {'to': 'P'}),
    ('ManyToManyField', {'to': 'P'}),
])

_C01_OPTIONS = [
    {}, {'null': True}, {'db_index': True}, {'unique': True},
    {'db_column': 'col_n'}, {'null': True, 'db_index': True},
    {'null': True, 'unique': True},
]


def _field_variants(quick):
    """(type, kwargs) for the field matrix."""
    for ftype, base_kwargs in _C01_TYPES.items():
        if ftype == 'ManyToManyField':
            yield ftype, dict(base_kwargs)
            yield ftype, dict(base_kwargs, db_table='custom_m2m')
            continue

        for option in _C01_OPTIONS:
            if ftype == 'OneToOneField' and 'unique' in option:
                continue

            if ftype == 'TextField' and option.get('unique'):
                pass

            yield ftype, dict(base_kwargs, **option)


def _add_desc(model, name, ftype, kwargs):
    kwargs = dict(kwargs)
    target = kwargs.pop('to', None)

    if target:
        kwargs['related_model'] = 'tests.%s' % target

    if ftype != 'ManyToManyField' and not kwargs.get('null'):
        kwargs['initial'] = _TYPE_INITIAL[ftype]

    return ['AddField', model, name, ftype, kwargs]


def _with_field(spec, model, name, ftype, kwargs):
    spec = copy.deepcopy(spec)
    spec[model]['fields'][name] = [ftype, dict(kwargs)]
    return spec


def _c01_catalogue(tier):
    quick = tier == 'quick'
    out = []

    def add(family, spec, muts, **extra):
        out.append(dict({'family': family, 'spec': spec,
                         'rows': auto_rows(spec, 1, safe=True),
                         'muts': muts,
                         'bystanders': ['Z']}, **extra))

    for rich in (False, True):
        base = c01_base(rich)
        tag = 'rich' if rich else 'plain'

        # -- AddField / DeleteField / RenameField matrix --------------------
        for ftype, kwargs in _field_variants(quick):
            add('add-' + tag, base, [_add_desc('T', 'n', ftype, kwargs)])
            with_n = _with_field(base, 'T', 'n', ftype, kwargs)
            add('delete-' + tag, with_n, [['DeleteField', 'T', 'n']])

            if ftype == 'ManyToManyField':
                add('rename-' + tag, with_n,
                    [['RenameField', 'T', 'n', 'renamed', {}]])
                add('rename-' + tag, with_n,
                    [['RenameField', 'T', 'n', 'renamed',
                      {'db_table': 'other_m2m'}]])
            else:
                add('rename-' + tag, with_n,
                    [['RenameField', 'T', 'n', 'renamed', {}]])

                if not quick or not rich:
                    add('rename-' + tag, with_n,
                        [['RenameField', 'T', 'n', 'renamed',
                          {'db_column': 'col_renamed'}]])

        # -- ChangeField toggles ------------------------------------------
        for ftype, base_kwargs in _C01_TYPES.items():
            if ftype == 'ManyToManyField':
                with_n = _with_field(base, 'T', 'n', ftype, base_kwargs)
                add('change-' + tag, with_n,
                    [['ChangeField', 'T', 'n', {'db_table': 'moved_m2m'}]])
                continue

            toggles = [
                ({'null': True}, {'null': False,
                                  'initial': _TYPE_INITIAL[ftype]}),
                ({}, {'null': True}),
                ({}, {'db_index': True}),
                ({'db_index': True}, {'db_index': False}),
                ({}, {'db_column': 'col_x'}),
                ({'db_column': 'col_x'}, {'db_column': 'col_y'}),
            ]

            if ftype != 'OneToOneField':
                toggles += [({}, {'unique': True}),
                            ({'unique': True}, {'unique': False}),
                            ({'db_index': True}, {'unique': True}),
                            ({'unique': True, 'db_index': True},
                             {'unique': False})]

            if ftype == 'CharField':
                toggles += [({}, {'max_length': 30}),
                            ({}, {'max_length': 5}),
                            ({'null': True},
                             {'max_length': 30, 'null': False,
                              'initial': 'both'})]
            elif ftype == 'DecimalField':
                toggles += [({}, {'max_digits': 9}),
                            ({}, {'decimal_places': 1}),
                            ({}, {'max_digits': 10, 'decimal_places': 4})]

            for start_opt, change in toggles:
                if quick and rich and ftype not in ('CharField',
                                                    'IntegerField',
                                                    'ForeignKey'):
                    continue

                with_n = _with_field(base, 'T', 'n', ftype,
                                     dict(base_kwargs, **start_opt))
                add('change-' + tag, with_n,
                    [['ChangeField', 'T', 'n', change]])

        # -- type changes -----------------------------------------------------
        type_changes = [
            ('CharField', {'max_length': 10}, 'TextField', {}),
            ('TextField', {}, 'CharField', {'max_length': 40}),
            ('IntegerField', {}, 'BigIntegerField', {}),
            ('IntegerField', {}, 'CharField', {'max_length': 12}),
            ('IntegerField', {'null': True}, 'PositiveIntegerField',
             {'null': True}),
            ('BooleanField', {}, 'IntegerField', {}),
            ('DecimalField', {'max_digits': 6, 'decimal_places': 2},
             'CharField', {'max_length': 20}),
            ('CharField', {'max_length': 10, 'db_index': True},
             'TextField', {'db_index': True}),
        ]

        for old_type, old_kwargs, new_type, new_kwargs in type_changes:
            with_n = _with_field(base, 'T', 'n', old_type, old_kwargs)
            add('type-' + tag, with_n,
                [['ChangeField', 'T', 'n',
                  dict(new_kwargs, field_type=new_type)]])

    # -- ChangeMeta matrix ---------------------------------------------------
    q_gte = {'__Q__': {'i__gte': 1}}
    meta_values = {
        'unique_together': [[], [['c', 'i']], [['c', 'i'], ['u', 'x']],
                            [['i', 'c']], [['c', 'fk']]],
        'index_together': [[], [['c', 'i']], [['c', 'i'], ['u', 'x']],
                           [['x', 'c']]],
        'indexes': [[], [{'fields': ['c'], 'name': 'ix_one'}],
                    [{'fields': ['c', 'i'], 'name': 'ix_two'}],
                    [{'fields': ['c'], 'name': 'ix_cond',
                      'condition': q_gte}],
                    [{'fields': ['c'], 'name': 'ix_one'},
                     {'fields': ['x'], 'name': 'ix_cond',
                      'condition': q_gte}],
                    [{'fields': ['c']}]],
        'constraints': [[],
                        [{'type': {'__cls__': 'UniqueConstraint'},
                          'name': 'uq_one', 'fields': ['c', 'x']}],
                        [{'type': {'__cls__': 'UniqueConstraint'},
                          'name': 'uq_cond', 'fields': ['c'],
                          'condition': q_gte}],
                        [{'type': {'__cls__': 'CheckConstraint'},
                          'name': 'ck_one', 'check': {'__Q__':
                                                      {'x__gte': 0}}}],
                        [{'type': {'__cls__': 'UniqueConstraint'},
                          'name': 'uq_one', 'fields': ['c', 'x']},
                         {'type': {'__cls__': 'CheckConstraint'},
                          'name': 'ck_one', 'check': {'__Q__':
                                                      {'x__gte': 0}}}]],
    }

    for others in (False, True):
        for prop, values in meta_values.items():
            for old, new in itertools.permutations(values, 2):
                base = c01_base(False)
                base['T']['fields']['fk'] = ['ForeignKey',
                                             {'to': 'P', 'null': True}]

                if others:
                    # every OTHER Meta option is set as well
                    for other_prop, other_values in meta_values.items():
                        if other_prop != prop:
                            base['T']['meta'][other_prop] = \
                                copy.deepcopy(other_values[1])

                if old:
                    base['T']['meta'][prop] = copy.deepcopy(old)

                add('meta-%s-%s' % (prop, 'others' if others else 'alone'),
                    base, [['ChangeMeta', 'T', prop, copy.deepcopy(new)]])

    # -- model level -----------------------------------------------------------
    for rich in (False, True):
        base = c01_base(rich)
        tag = 'rich' if rich else 'plain'
        add('model-' + tag, base, [['RenameModel', 'T', 'T2', 'tests_t2']])
        add('model-' + tag, base, [['RenameModel', 'T', 'T2', 'tests_t']])
        add('model-' + tag, base, [['RenameModel', 'T', 'T2', 'custom_t']])
        add('model-' + tag, base, [['RenameModel', 'P', 'P2', 'tests_p2']])
        add('model-' + tag, base, [['RenameModel', 'P', 'P2', 'tests_p']])
        add('model-' + tag, base, [['DeleteModel', 'T']])
        add('model-' + tag, base, [['DeleteModel', 'T'],
                                   ['DeleteModel', 'P']])
        add('model-' + tag, base, [['DeleteApplication']], bystanders=[])

        custom = copy.deepcopy(base)
        custom['T']['meta']['db_table'] = 'my_t'
        add('model-' + tag, custom, [['RenameModel', 'T', 'T2', 'my_t']])
        add('model-' + tag, custom, [['RenameModel', 'T', 'T2', 'tests_t2']])
        add('model-' + tag, custom,
            [_add_desc('T', 'n', 'IntegerField', {})])

        o2o = _with_field(base, 'T', 'one', 'OneToOneField',
                          {'to': 'P', 'null': True})
        add('model-' + tag, o2o, [['RenameModel', 'P', 'P2', 'tests_p2']])
        add('model-' + tag, o2o, [['RenameModel', 'T', 'T2', 'tests_t2']])

    return out


def _c01_hinted(tier):
    """(start, target) pairs; the mutations come from the library's Diff."""
    base = c01_base(False)
    variants = OrderedDict()
    variants['base'] = base

    def variant(name, fn):
        spec = copy.deepcopy(base)
        fn(spec['T'])
        variants[name] = spec

    variant('plus-int', lambda t: t['fields'].__setitem__(
        'n', ['IntegerField', {'null': True}]))
    variant('plus-char-default', lambda t: t['fields'].__setitem__(
        'n', ['CharField', {'max_length': 12, 'default': 'dflt'}]))
    variant('plus-fk', lambda t: t['fields'].__setitem__(
        'n', ['ForeignKey', {'to': 'P', 'null': True}]))
    variant('plus-m2m', lambda t: t['fields'].__setitem__(
        'n', ['ManyToManyField', {'to': 'P'}]))
    variant('minus-i', lambda t: t['fields'].pop('i'))
    variant('i-notnull', lambda t: t['fields'].__setitem__(
        'i', ['IntegerField', {}]))
    variant('c-indexed', lambda t: t['fields'].__setitem__(
        'c', ['CharField', {'max_length': 20, 'db_index': True}]))
    variant('c-unique-longer', lambda t: t['fields'].__setitem__(
        'c', ['CharField', {'max_length': 40, 'unique': True}]))
    variant('u-plain', lambda t: t['fields'].__setitem__(
        'u', ['CharField', {'max_length': 10}]))
    variant('x-plain-col', lambda t: t['fields'].__setitem__(
        'x', ['IntegerField', {'db_column': 'x_col'}]))
    variant('c-text', lambda t: t['fields'].__setitem__(
        'c', ['TextField', {}]))
    variant('ut', lambda t: t['meta'].__setitem__(
        'unique_together', [['c', 'i']]))
    variant('it-ix', lambda t: t['meta'].update(
        index_together=[['c', 'x']],
        indexes=[{'fields': ['i'], 'name': 'ix_i'}]))
    variant('constraints', lambda t: t['meta'].__setitem__(
        'constraints', [
            {'type': {'__cls__': 'UniqueConstraint'}, 'name': 'uq_xc',
             'fields': ['x', 'c']},
            {'type': {'__cls__': 'CheckConstraint'}, 'name': 'ck_x',
             'check': {'__Q__': {'x__gte': 0}}}]))
    variant('no-T', lambda t: None)
    del variants['no-T']['T']

    names = list(variants)
    out = []

    for a, b in itertools.permutations(names, 2):
        if a == 'no-T':
            continue   # creating models is not an evolution

        out.append({'family': 'hinted', 'spec': variants[a],
                    'rows': auto_rows(variants[a], 1, safe=True),
                    'target': variants[b], 'pair': [a, b],
                    'muts': None, 'bystanders': ['Z']})

    return out


def hinted_mutations(spec, target):
    """The library's own hinted evolution from spec to target, as descs.

    Placeholder initial values (``<<USER VALUE REQUIRED>>``) are replaced
    by a value fitting the field type, as a developer would.
    """
    _setup()

    from django_evolution.diff import Diff
    from django_evolution.placeholders import BasePlaceholder

    try:
        with warnings.catch_warnings():
            warnings.simplefilter('ignore')
            start_map = H.build_models(dec_spec(spec))
            start_sig = _orig_project_sig_fn[0](start_map)
            end_map = H.build_models(dec_spec(target))
            end_sig = _orig_project_sig_fn[0](end_map)
            diff = Diff(start_sig, end_sig)
            mutations = diff.evolution().get(H.APP_LABEL, [])
            descs = []

            for mutation in mutations:
                initial = getattr(mutation, 'initial', None)

                if isinstance(initial, BasePlaceholder):
                    field_type = getattr(mutation, 'field_type', None)

                    if field_type is None:
                        field_type = (
                            end_sig.get_app_sig(H.APP_LABEL)
                            .get_model_sig(mutation.model_name)
                            .get_field_sig(mutation.field_name).field_type)

                    mutation.initial = _TYPE_INITIAL.get(
                        field_type.__name__, 1)

                descs.append(desc_of(mutation))

            return descs
    finally:
        H._purge_registry()


def _expand_rebuilt(spec, muts, rebuilds):
    """Rebuilt tables under every name the same table has in the run."""
    ident = _table_identities(spec, muts)
    groups = set(ident.get(t, t) for t in rebuilds if t)

    return sorted(set(t for t in rebuilds if t) |
                  set(name for name, key in ident.items() if key in groups))


def _is_crash(error):
    """An internal error (not a legitimate rejection, not a data error)."""
    return error is not None and error['phase'] in ('simulate', 'sql') and \
        not _is_rejection(error)


def eval_C01(sc):
    spec, rows = sc['spec'], sc.get('rows')
    out = {'nontrivial': False, 'skipped': None, 'failures': [],
           'summary': {}}
    failures = out['failures']
    target = sc.get('target')
    muts = sc.get('muts')

    if muts is None:
        muts = hinted_mutations(spec, target)
        out['summary']['hinted_muts'] = muts

        if not muts:
            out['skipped'] = 'empty-hint'
            return out

        if any(m[0].startswith('<') or '__repr__' in _canon(m)
               for m in muts):
            out['skipped'] = 'hint-not-representable'
            return out

    ok, error = sim_valid(spec, muts)

    if not ok:
        out['skipped'] = 'simulation-invalid:%s' % error['class']
        return out

    groups = [muts] if sc.get('batched', True) else [[m] for m in muts]
    result = run(spec, groups, rows, end_spec=target)
    error = result['error']

    if error is not None:
        if error['phase'] == 'setup':
            out['skipped'] = 'setup-error:%s' % error['message'][:80]
            return out

        if _is_rejection(error):
            out['skipped'] = 'rejected:%s' % error['class']
            return out

        out['nontrivial'] = True

        if error['phase'] == 'execute':
            failures.append(('sql-executes', {
                'error': _err_brief(error), 'muts': muts,
                'rebuilds_before_failure': dict(result['rebuilds'])}))
        else:
            failures.append(('accepted-evolution-crashes', {
                'error': _err_brief(error), 'muts': muts}))

        return out

    out['nontrivial'] = True

    # -- the evolved models, created from scratch ---------------------------
    try:
        if target is not None:
            expected = H.fresh_schema(dec_spec(target))
        else:
            expected = fresh_schema_of_sig(result['project_sig'])
    except Exception as e:
        out['skipped'] = 'evolved-models-not-creatable:%s' % (
            '%s: %s' % (type(e).__name__, e))[:120]
        out['nontrivial'] = False
        return out

    bystander_tables = set()

    for name in sc.get('bystanders') or []:
        if name in spec:
            bystander_tables.add((spec[name].get('meta') or {}).get(
                'db_table', 'tests_%s' % name.lower()))

    diff = schema_diff(result['schema'], expected)

    if diff:
        failures.append(('schema-equals-fresh', dict(
            {'diff': diff, 'muts': muts},
            **explain_schema_diff(
                diff, result['final_sig'],
                _expand_rebuilt(spec, muts, result['rebuilds']),
                muts=muts, batched=sc.get('batched', True)))))

    # -- untouched tables ----------------------------------------------------
    for table in sorted(bystander_tables):
        before = result['start_schema'].get(table)
        after = result['schema'].get(table)

        def essence(info):
            return info and {'create_sql': info['create_sql'],
                             'index_sql': sorted(info['index_sql']),
                             'columns': info['columns']}

        if essence(before) != essence(after):
            failures.append(('bystander-untouched', {
                'table': table, 'before': essence(before),
                'after': essence(after)}))

    out['summary'].update({
        'family': sc.get('family'),
        'rebuilds': dict(result['rebuilds']),
        'failed_clauses': sorted(set(c for c, _o in failures)),
    })

    return out


_EVALS['C01'] = eval_C01

KNOWN_C01 = []

RULE_C01 = (
    'Catalogue over start models P(name unique) <- T(c char, i int null, '
    'u char unique, x int db_index [, fk->P, m2m->P, unique_together, '
    'index_together, Meta.indexes incl. a condition, Unique+Check '
    'constraints]) + bystander Z, one row per table: AddField / '
    'DeleteField / RenameField(+db_column/db_table) for 11 field types x '
    '7 option sets, ChangeField toggles (null, db_index, unique, '
    'db_column, max_length, max_digits/decimal_places, m2m db_table) and '
    'type changes, all ordered (old,new) pairs of 4-6 values for each of '
    'unique_together/index_together/indexes/constraints alone and with the '
    'other Meta options set, RenameModel (new/same/custom db_table, with '
    'inbound and outbound FK/O2O/M2M), DeleteModel, DeleteApplication; '
    'hinted evolutions (library Diff) for all ordered pairs of 16 model '
    'variants; plus sequences of the C03 space run as one batch.  Expected '
    'schema = tables created by Django for models rebuilt from the final '
    'signature (hinted: for the target models); compared per table: '
    'columns {name: type, notnull, pk}, multiset of (unique, columns) '
    'indexes, partial index conditions, CHECK clauses, foreign keys.  '
    'Skipped: rejected by simulation / EvolutionNotImplementedError, or '
    'evolved models Django itself refuses to create.  Non-trivial = the '
    'evolution was accepted and produced SQL that was executed.'
)


def _c01_scenarios(tier, seed):
    rng = random.Random(seed)
    scenarios = _c01_catalogue(tier) + _c01_hinted(tier)
    groups = ['catalogue+hinted: %d' % len(scenarios)]

    if tier == 'quick':
        seqs = enum_sequences(SEQ_SPEC, 'core', 2)
        full = [s for s in enum_sequences(SEQ_SPEC, 'full', 2)
                if len(s) == 2]
        full = rng.sample(full, 400)
        groups.append('exhaustive core<=2: %d, sample of full len 2: %d'
                      % (len(seqs), len(full)))
        seqs = _dedup(seqs + full)
    else:
        seqs = enum_sequences(SEQ_SPEC, 'core', 2)
        full = enum_sequences(SEQ_SPEC, 'full', 2)
        groups.append('exhaustive core<=2: %d, full<=2: %d'
                      % (len(seqs), len(full)))
        seqs = seqs + full
        more = [random_sequence(SEQ_SPEC, 'full', rng.randint(3, 8), rng)
                for _i in range(1500)]
        groups.append('random full len 3-8: %d' % len(more))
        seqs = _dedup(seqs + more)

    rows1 = OrderedDict((name, table_rows[:1])
                        for name, table_rows in SEQ_ROWS.items())

    for seq in seqs:
        scenarios.append({'family': 'sequence', 'spec': SEQ_SPEC,
                          'rows': rows1, 'muts': seq, 'bystanders': ['Z']})

        if len(seq) >= 2 and (tier != 'quick' or len(scenarios) % 2):
            scenarios.append({'family': 'sequence-unbatched',
                              'spec': SEQ_SPEC, 'rows': rows1, 'muts': seq,
                              'bystanders': ['Z'], 'batched': False})

    return scenarios, groups


def suite_C01(tier='quick', seed=0):
    t0 = time.time()
    _setup()
    scenarios, groups = _c01_scenarios(tier, seed)

    return _collect('C01', scenarios, KNOWN_C01,
                    RULE_C01 + '  Scope: ' + '; '.join(groups), True, t0,
                    budget=55 if tier == 'quick' else 14 * 60)


def replay_C01(inputs, clause=None):
    """Re-run ONE scenario; ``reproduced`` = some clause (or ``clause``, if
    given) still fails on the tree under test."""
    return _replay('C01', inputs, clause)



# ---------------------------------------------------------------------------
# C02 - evolutions preserve existing row data
# ---------------------------------------------------------------------------

#: All nullable: any subset/order of null->not-null changes is possible.
INIT_SPEC = OrderedDict([
    ('T', {'fields': OrderedDict([
        ('f1', ['CharField', {'max_length': 20, 'null': True}]),
        ('f2', ['IntegerField', {'null': True}]),
        ('f3', ['CharField', {'max_length': 20, 'null': True}]),
        ('keep', ['CharField', {'max_length': 20}]),
    ]), 'meta': {}}),
    ('Z', copy.deepcopy(_Z_MODEL)),
])

_INIT_ALPHABET = [
    ['ChangeField', 'T', 'f1', {'null': False, 'initial': "F1'init"}],
    ['ChangeField', 'T', 'f2', {'null': False, 'initial': 222}],
    ['ChangeField', 'T', 'f3', {'null': False, 'initial': 'F3 50%'}],
    ['AddField', 'T', 'n1', 'CharField', {'max_length': 20,
                                          'initial': 'N1"init'}],
    ['AddField', 'T', 'n2', 'IntegerField', {'initial': -999}],
    ['AddField', 'T', 'n3', 'CharField', {'max_length': 20, 'null': True}],
    ['AddField', 'T', 'n4', 'CharField',
     {'max_length': 20, 'initial': {'__callable__': "'sql' || 'expr'",
                                    'value': 'sqlexpr'}}],
    ['AddField', 'T', 'n5', 'BooleanField', {'initial': False}],
    ['AddField', 'T', 'n6', 'CharField', {'max_length': 20, 'initial': ''}],
    # a change that does not touch nullability must not rewrite NULLs, even when it carries an initial value (hinted
    # ChangeFields always do)
    ['ChangeField', 'T', 'f3', {'unique': True, 'initial': 'U3'}],
]


def _init_rows(count):
    rows = []
    f1 = ['one', None, '', "q'uote", None, '100%']
    f2 = [1, None, 0, None, -2147483648, 2147483647]
    f3 = [None, 'three', None, '%s', 'x"y', None]

    for i in range(count):
        rows.append({'f1': f1[i % 6], 'f2': f2[i % 6], 'f3': f3[i % 6],
                     'keep': 'keep-%d' % i})

    return OrderedDict([('T', rows),
                        ('Z', [{'z1': 'zz', 'z2': 5}] if count else [])])


#: Every scalar field type with boundary values.
TYPES_SPEC = OrderedDict([
    ('P', {'fields': OrderedDict([
        ('name', ['CharField', {'max_length': 20}]),
    ]), 'meta': {}}),
    ('W', {'fields': OrderedDict([
        ('ch', ['CharField', {'max_length': 30}]),
        ('tx', ['TextField', {'null': True}]),
        ('it', ['IntegerField', {'null': True}]),
        ('bi', ['BigIntegerField', {}]),
        ('po', ['PositiveIntegerField', {}]),
        ('bo', ['BooleanField', {}]),
        ('de', ['DecimalField', {'max_digits': 8, 'decimal_places': 2,
                                 'null': True}]),
        ('dt', ['DateTimeField', {'null': True}]),
        ('fk', ['ForeignKey', {'to': 'P', 'null': True}]),
        ('mm', ['ManyToManyField', {'to': 'P'}]),
    ]), 'meta': {}}),
    ('Z', copy.deepcopy(_Z_MODEL)),
])

_TYPES_MUTS = [
    [['AddField', 'W', 'n', 'IntegerField', {'initial': 11}]],
    [['AddField', 'W', 'n', 'CharField', {'max_length': 9, 'null': True}]],
    [['AddField', 'W', 'n', 'ForeignKey',
      {'null': True, 'related_model': 'tests.P'}]],
    [['AddField', 'W', 'n', 'ManyToManyField',
      {'related_model': 'tests.P'}]],
    [['DeleteField', 'W', 'ch']],
    [['DeleteField', 'W', 'fk']],
    [['DeleteField', 'W', 'mm']],
    [['ChangeField', 'W', 'tx', {'null': False, 'initial': "t'%x"}]],
    [['ChangeField', 'W', 'it', {'null': False, 'initial': 0}]],
    [['ChangeField', 'W', 'de', {'null': False, 'initial': 1.25}]],
    [['ChangeField', 'W', 'dt', {'null': False,
                                 'initial': '2001-02-03 04:05:06'}]],
    [['ChangeField', 'W', 'ch', {'max_length': 5}]],
    [['ChangeField', 'W', 'ch', {'max_length': 50, 'db_index': True}]],
    [['ChangeField', 'W', 'ch', {'unique': True}]],
    [['ChangeField', 'W', 'bi', {'db_column': 'big_col'}]],
    [['ChangeField', 'W', 'de', {'max_digits': 12, 'decimal_places': 4}]],
    [['ChangeField', 'W', 'it', {'field_type': 'BigIntegerField',
                                 'null': True}]],
    [['ChangeField', 'W', 'ch', {'field_type': 'TextField'}]],
    [['RenameField', 'W', 'ch', 'ch2', {}]],
    [['RenameField', 'W', 'bi', 'bi2', {'db_column': 'bi_col'}]],
    [['RenameField', 'W', 'fk', 'parent', {}]],
    [['RenameField', 'W', 'mm', 'links', {}]],
    [['RenameField', 'W', 'mm', 'links', {'db_table': 'w_links'}]],
    [['ChangeField', 'W', 'mm', {'db_table': 'w_moved'}]],
    [['ChangeMeta', 'W', 'unique_together', [['ch', 'bi']]]],
    [['ChangeMeta', 'W', 'indexes', [{'fields': ['it'], 'name': 'w_ix'}]]],
    [['ChangeMeta', 'W', 'constraints',
      [{'type': {'__cls__': 'CheckConstraint'}, 'name': 'w_ck',
        'check': {'__Q__': {'po__gte': 0}}}]]],
    [['RenameModel', 'W', 'W2', 'tests_w2']],
    [['RenameModel', 'W', 'W2', 'tests_w']],
    [['RenameModel', 'P', 'P2', 'tests_p2']],
    [['DeleteModel', 'Z']],
    [['RenameModel', 'W', 'W2', 'tests_w2'],
     ['AddField', 'W2', 'n', 'IntegerField', {'initial': 11}]],
    [['RenameField', 'W', 'ch', 'ch2', {}],
     ['ChangeField', 'W', 'ch2', {'max_length': 40}],
     ['DeleteField', 'W', 'tx']],
    [['AddField', 'W', 'n', 'IntegerField', {'null': True}],
     ['ChangeField', 'W', 'n', {'null': False, 'initial': 77}]],
]


def eval_C02(sc):
    spec, rows, muts = sc['spec'], sc.get('rows'), sc['muts']
    out = {'nontrivial': False, 'skipped': None, 'failures': [],
           'summary': {}}

    ok, error = sim_valid(spec, muts)

    if not ok:
        out['skipped'] = 'simulation-invalid:%s' % error['class']
        return out

    groups = [muts] if sc.get('batched', True) else [[m] for m in muts]
    result = run(spec, groups, rows)
    error = result['error']

    if error is not None:
        # Rejections, crashes and failing SQL are C01/C03 matters; nothing
        # was evolved, so there is nothing to compare.
        out['skipped'] = 'not-evolved:%s:%s' % (error['phase'],
                                                error['class'])
        return out

    start = start_dump(spec, rows)

    try:
        failures, checked = check_rows(result['start_sig'],
                                       result['final_sig'], muts,
                                       start['rows'], result['rows'])
    except TrackerMismatch as e:
        # The final signature does not hold the models/fields the mutations
        # describe (an optimiser defect, C03's business): the cells cannot
        # be located reliably.
        out['skipped'] = 'signature-diverges-from-mutations'
        out['summary'] = {'detail': str(e)}
        return out
    out['nontrivial'] = checked > 0

    context = {
        'sql': [s for g in result['sql'] for s in g
                if isinstance(s, str) and
                (s.startswith('INSERT INTO') or s.startswith('UPDATE'))][:6],
        'batched': sc.get('batched', True),
    }

    for clause, observed in failures:
        out['failures'].append((clause, dict(observed, **context)))

    out['summary'] = {
        'family': sc.get('family'),
        'cells_checked': checked,
        'rebuilds': dict(result['rebuilds']),
        'failed_clauses': sorted(set(c for c, _o in failures)),
    }

    return out


_EVALS['C02'] = eval_C02

KNOWN_C02 = []

RULE_C02 = (
    'Families: (init) model T(f1 char null, f2 int null, f3 char null, '
    'keep) with 0/1/6 rows incl. NULLs, empty strings, quotes, percent '
    'signs, INT_MIN/INT_MAX: ALL ordered selections of 1-3 (thorough: '
    '1-4) mutations out of 9 [3x ChangeField(null=False, initial), 6x '
    'AddField(initial str/int/bool/empty/callable/NULL)], as one batch and '
    'one at a time; (types) model W with Char/Text/Integer/BigInteger/'
    'PositiveInteger/Boolean/Decimal/DateTime/FK/M2M columns, 6 boundary '
    'rows, 34 rebuild/rename/type-change/RenameModel scenarios; (rich) '
    'the C01 rich model with 4 rows under every catalogue mutation; '
    '(sequence) sequences of the C03 space with 3+2+2 rows.  The oracle '
    'tracks every field identity through the mutations on its own '
    '(RowTracker) and compares raw SQLite values per primary key: '
    'surviving-value-unchanged, row-count, m2m-rows, added-column-initial, '
    'null-replaced-by-initial.  Scenarios the library rejects or whose SQL '
    'fails are skipped.  Non-trivial = at least one pre-existing cell was '
    'compared.'
)


def _c02_scenarios(tier, seed):
    rng = random.Random(seed)
    quick = tier == 'quick'
    scenarios = []
    groups = []

    # -- init family -----------------------------------------------------------
    max_k = 3 if quick else 4
    count = 0

    for k in range(1, max_k + 1):
        perms = list(itertools.permutations(range(len(_INIT_ALPHABET)), k))

        if quick and k == 3:
            # keep the 3-selections touching >= 1 ChangeField and >= 1
            # AddField (the order-sensitive ones)
            perms = [p for p in perms
                     if any(i < 3 for i in p) and any(i >= 3 for i in p)]
        elif k == 4:
            perms = rng.sample(perms, 1200)

        for perm in perms:
            muts = [copy.deepcopy(_INIT_ALPHABET[i]) for i in perm]
            row_counts = [6] if (quick and k == 3) else [6, 1] \
                if quick else [6, 1, 0]

            for n in row_counts:
                scenarios.append({'family': 'init', 'spec': INIT_SPEC,
                                  'rows': _init_rows(n), 'muts': muts})
                count += 1

            if k >= 2 and (not quick or k == 2):
                scenarios.append({'family': 'init-unbatched',
                                  'spec': INIT_SPEC, 'rows': _init_rows(6),
                                  'muts': muts, 'batched': False})
                count += 1

    groups.append('init: %d' % count)

    # -- types family ----------------------------------------------------------
    type_rows = auto_rows(TYPES_SPEC, 6)

    for muts in _TYPES_MUTS:
        scenarios.append({'family': 'types', 'spec': TYPES_SPEC,
                          'rows': type_rows, 'muts': copy.deepcopy(muts)})

        if len(muts) > 1:
            scenarios.append({'family': 'types', 'spec': TYPES_SPEC,
                              'rows': type_rows,
                              'muts': copy.deepcopy(muts),
                              'batched': False})

    groups.append('types: %d' % len(_TYPES_MUTS))

    # -- the C01 catalogue on the rich model with 4 rows -----------------------
    count = 0

    for sc in _c01_catalogue(tier):
        if sc['family'].endswith('-plain') and quick:
            continue

        if sc['family'].startswith('meta-') and quick and count % 3:
            count += 1
            continue

        scenarios.append({'family': 'catalogue:' + sc['family'],
                          'spec': sc['spec'],
                          'rows': auto_rows(sc['spec'], 4, safe=True),
                          'muts': sc['muts']})
        count += 1

    groups.append('catalogue with rows: %d' % count)

    # -- sequences -----------------------------------------------------------
    if quick:
        seqs = enum_sequences(SEQ_SPEC, 'core', 2)
        seqs += rng.sample([s for s in enum_sequences(SEQ_SPEC, 'full', 2)
                            if len(s) == 2], 400)
        seqs += [random_sequence(SEQ_SPEC, 'full', rng.randint(3, 8), rng)
                 for _i in range(200)]
    else:
        seqs = enum_sequences(SEQ_SPEC, 'core', 2)
        seqs += rng.sample(enum_sequences(SEQ_SPEC, 'core', 3), 2500)
        seqs += enum_sequences(SEQ_SPEC, 'full', 2)
        seqs += [random_sequence(SEQ_SPEC, 'full', rng.randint(3, 12), rng)
                 for _i in range(2500)]

    seqs = _dedup(seqs)
    groups.append('sequences: %d' % len(seqs))

    for i, seq in enumerate(seqs):
        scenarios.append({'family': 'sequence', 'spec': SEQ_SPEC,
                          'rows': SEQ_ROWS, 'muts': seq})

        if len(seq) >= 2 and (not quick or i % 3 == 0):
            scenarios.append({'family': 'sequence-unbatched',
                              'spec': SEQ_SPEC, 'rows': SEQ_ROWS,
                              'muts': seq, 'batched': False})

    return scenarios, groups


def suite_C02(tier='quick', seed=0):
    t0 = time.time()
    _setup()
    scenarios, groups = _c02_scenarios(tier, seed)

    return _collect('C02', scenarios, KNOWN_C02,
                    RULE_C02 + '  Scope: ' + '; '.join(groups),
                    True, t0, budget=55 if tier == 'quick' else 14 * 60)


def replay_C02(inputs, clause=None):
    """Re-run ONE scenario; ``reproduced`` = some clause (or ``clause``, if
    given) still fails on the tree under test."""
    return _replay('C02', inputs, clause)



# ---------------------------------------------------------------------------
# C18 - batched changes rewrite each table once, never more than unbatched
# ---------------------------------------------------------------------------

def _table_identities(spec, muts):
    """Map every table name a model's table ever has to one identity."""
    state = SeqState(spec, protected=())
    ident = {}

    for name, info in state.models.items():
        ident[info['table']] = info['table']

    for desc in muts:
        if desc[0] == 'RenameModel' and desc[1] in state.models:
            old_table = state.models[desc[1]]['table']
            ident.setdefault(desc[3], ident.get(old_table, old_table))

        try:
            state.apply(desc)
        except Exception:
            break

    return ident


def _by_identity(rebuilds, ident):
    result = {}

    for table, count in rebuilds.items():
        key = ident.get(table, table)
        result[key] = result.get(key, 0) + count

    return result


_MERGEABLE_KINDS = ('AddField', 'DeleteField', 'ChangeField', 'ChangeMeta')


def _is_mergeable(desc):
    if desc[0] not in _MERGEABLE_KINDS:
        return False

    if desc[0] == 'ChangeField' and ('field_type' in desc[3] or
                                     'db_column' in desc[3]):
        # type changes and column renames are excluded by the property
        return False

    return True


def single_run_models(spec, muts):
    """Models (by start table) whose mutations form ONE run of mergeable
    mutations: all of the model's mutations are consecutive and mergeable,
    and no mutation elsewhere in the sequence is a model level one."""
    if any(desc[0] in ('RenameModel', 'DeleteModel', 'DeleteApplication')
           for desc in muts):
        return {}

    positions = {}

    for index, desc in enumerate(muts):
        if desc[0] == 'SQLMutation':
            continue

        positions.setdefault(desc[1], []).append(index)

    state = SeqState(spec, protected=())
    result = {}

    for model, indexes in positions.items():
        if model not in state.models:
            continue

        if indexes[-1] - indexes[0] + 1 != len(indexes):
            continue

        if all(_is_mergeable(muts[i]) for i in indexes) and len(indexes) > 1:
            result[model] = state.models[model]['table']

    return result


def eval_C18(sc):
    spec, rows, muts = sc['spec'], sc.get('rows'), sc['muts']
    out = {'nontrivial': False, 'skipped': None, 'failures': [],
           'summary': {}}

    ok, error = sim_valid(spec, muts)

    if not ok:
        out['skipped'] = 'simulation-invalid'
        return out

    single = run(spec, [[m] for m in muts], rows)

    if single['error'] is not None:
        out['skipped'] = 'one-at-a-time-rejected:%s' % single['error']['class']
        return out

    batched = run(spec, [muts], rows)

    if batched['error'] is not None:
        out['skipped'] = 'optimised-run-rejected:%s' % \
            batched['error']['class']
        return out

    ident = _table_identities(spec, muts)
    single_counts = _by_identity(single['rebuilds'], ident)
    runs = {'AppMutator': _by_identity(batched['rebuilds'], ident)}

    if sc.get('evolver', True) and len(muts) >= 2:
        # every mutation in its own evolution ("however many evolutions")
        ev = run_evolver(spec, _split_evolutions(muts, len(muts)), rows)

        if ev['error'] is None:
            runs['Evolver(%d evolutions)' % len(muts)] = \
                _by_identity(ev['rebuilds'], ident)

    out['nontrivial'] = len(muts) >= 2 and sum(single_counts.values()) >= 1
    one_run = single_run_models(spec, muts)

    for how, counts in runs.items():
        for table, count in sorted(counts.items(), key=repr):
            if count > single_counts.get(table, 0):
                out['failures'].append(('no-more-than-unbatched', {
                    'how': how, 'table': table, 'optimised': count,
                    'one_at_a_time': single_counts.get(table, 0)}))

        for model, table in sorted(one_run.items()):
            if counts.get(table, 0) > 1:
                out['failures'].append(('mergeable-run-single-rewrite', {
                    'how': how, 'model': model, 'table': table,
                    'rewrites': counts.get(table, 0),
                    'one_at_a_time': single_counts.get(table, 0)}))

    out['summary'] = {
        'one_at_a_time': single_counts,
        'optimised': runs,
        'single_run_models': sorted(one_run),
        'failed_clauses': sorted(set(c for c, _o in out['failures'])),
    }

    return out


_EVALS['C18'] = eval_C18

KNOWN_C18 = []

RULE_C18 = (
    'The C03 sequence space (see suite_C03).  Each sequence is run one '
    'mutation per AppMutator (rescan between), all in one AppMutator, and '
    'through Evolver+EvolveAppTask with every mutation in its own '
    'evolution; rewrites are counted per table on the executed statement '
    'trace (CREATE TABLE "TEMP_TABLE" ... RENAME TO <table>; table names '
    'connected by RenameModel count as one table).  Clauses: '
    'no-more-than-unbatched (per table, optimised <= one-at-a-time) and '
    'mergeable-run-single-rewrite (a model all of whose mutations in the '
    'sequence are consecutive AddField/DeleteField/ChangeField without '
    'field_type or db_column/ChangeMeta, in a sequence without model level '
    'mutations, is rewritten at most once).  Skipped when rejected one at '
    'a time or when the optimised run is rejected (that is C03).  '
    'Non-trivial = length >= 2 and at least one rewrite one at a time.'
)


def suite_C18(tier='quick', seed=0):
    t0 = time.time()
    _setup()
    seqs, tags, groups, exhaustive = _seq_scenarios(tier, seed, 'C18')
    scenarios = []

    for i, seq in enumerate(seqs):
        sc = {'spec': SEQ_SPEC, 'rows': SEQ_ROWS, 'muts': seq}

        if tier == 'quick':
            sc['evolver'] = (i % 3 == 0)
        elif tags[i] == 'bulk':
            sc['evolver'] = (i % 8 == 0)

        scenarios.append(sc)

    # dedicated mergeable runs: every ordered selection of 2..3 (4) from a
    # pool of mergeable mutations on one model
    pool = [
        ['AddField', 'A', 'x', 'IntegerField', {'initial': 7}],
        ['AddField', 'A', 'y', 'CharField', {'max_length': 8, 'null': True}],
        ['DeleteField', 'A', 'a2'],
        ['ChangeField', 'A', 'a3', {'null': False, 'initial': 'n'}],
        ['ChangeField', 'A', 'a1', {'max_length': 30}],
        ['ChangeField', 'A', 'a1', {'db_index': True}],
        ['ChangeField', 'A', 'a3', {'unique': True}],
        ['ChangeMeta', 'A', 'unique_together', [['a1', 'a3']]],
        ['ChangeMeta', 'A', 'index_together', [['a1', 'a3']]],
        ['ChangeMeta', 'A', 'indexes', [{'fields': ['a1'], 'name': 'ix'}]],
        ['ChangeMeta', 'A', 'constraints',
         [{'type': {'__cls__': 'UniqueConstraint'}, 'name': 'uc',
           'fields': ['a1']}]],
    ]
    count = 0
    sizes = (2, 3) if tier == 'quick' else (2, 3, 4)
    rng = random.Random(seed)

    for k in sizes:
        perms = list(itertools.permutations(range(len(pool)), k))

        if k == 3 and tier == 'quick':
            perms = rng.sample(perms, 200)
        elif k == 4:
            perms = rng.sample(perms, 2500)

        for perm in perms:
            scenarios.append({'spec': SEQ_SPEC, 'rows': SEQ_ROWS,
                              'muts': [copy.deepcopy(pool[i]) for i in perm],
                              'evolver': tier != 'quick' or count % 3 == 0})
            count += 1

    groups.append('mergeable pool selections: %d' % count)

    return _collect('C18', scenarios, KNOWN_C18,
                    RULE_C18 + '  Scope: ' + '; '.join(groups), exhaustive,
                    t0, budget=55 if tier == 'quick' else 14 * 60)


def replay_C18(inputs, clause=None):
    """Re-run ONE scenario; ``reproduced`` = some clause (or ``clause``, if
    given) still fails on the tree under test."""
    return _replay('C18', inputs, clause)



# ---------------------------------------------------------------------------
# Recorded genuine violations on the pinned tree (KNOWN lists)
# ---------------------------------------------------------------------------

def _causes_pred(cause):
    """Schema failure fully explained by recorded causes, incl. ``cause``."""
    def pred(scenario, observed):
        causes = observed.get('causes') or []
        return cause in causes and '?' not in causes

    return pred


def _error_pred(error_class=None, message_re=None, extra=None):
    def pred(scenario, observed):
        error = observed.get('error') or {}

        if error_class and error.get('class') != error_class:
            return False

        if message_re and not re.search(message_re,
                                        error.get('message') or ''):
            return False

        return extra is None or extra(scenario, observed)

    return pred


def _muts_of(scenario, observed):
    return scenario.get('muts') or observed.get('muts') or []


def _after_rebuild(scenario, observed):
    return bool(observed.get('rebuilds_before_failure'))


def _has_relation_type_change(scenario, observed):
    for desc in _muts_of(scenario, observed):
        if desc[0] == 'ChangeField' and 'field_type' in desc[3] and \
           'related_model' in desc[3]:
            return True

    return False


def _resets_column_or_table_name(scenario, observed):
    spec = scenario.get('spec') or {}

    for desc in _muts_of(scenario, observed):
        if desc[0] != 'ChangeField':
            continue

        if 'db_column' in desc[3] and desc[3]['db_column'] is None:
            return True

        if 'db_table' in desc[3]:
            info = ((spec.get(desc[1]) or {}).get('fields') or {}).get(
                desc[2])

            if info and not info[1].get('db_table'):
                return True

    return False


def _drops_check_as_index(scenario, observed):
    if observed.get('rebuilds_before_failure'):
        return False

    message = (observed.get('error') or {}).get('message') or ''
    name = message.split(':', 1)[-1].strip()

    if name.startswith('__unnamed_constraint_'):
        return True

    for model_spec in (scenario.get('spec') or {}).values():
        for item in (model_spec.get('meta') or {}).get('constraints') or []:
            if item.get('name') == name and 'check' in item:
                return True

    return False




def _witness(muts, spec=None, rows=None, **extra):
    return dict({'spec': spec, 'rows': rows, 'muts': muts}, **extra)


KNOWN_C01[:] = [
    {
        'id': 'rebuild-loses-table-level-objects',
        'clause': 'schema-equals-fresh',
        'match': 'every schema difference is an index/partial-index '
                 'condition/CHECK that the evolved models declare through '
                 'Meta (unique_together, index_together, indexes, '
                 'constraints) and that is missing on a table the run '
                 'rebuilt (CREATE TABLE "TEMP_TABLE" ...)',
        'what': 'SQLiteAlterTableSQLResult.to_sql rebuilds the table from '
                'its columns only: step 5 restores per-field indexes from a '
                'fake _meta with index_together=[] and indexes=[], '
                'constraints are emitted only for an ADD CONSTRAINTS op '
                '(and never for conditional UniqueConstraints, whose '
                'constraint_sql() is None), so unique_together / '
                'index_together / Meta.indexes / Meta.constraints objects '
                'of the table silently disappear',
        'pred': _causes_pred('rebuild-loses-table-level-objects'),
    },
    {
        'id': 'positive-integer-check-not-created',
        'clause': 'schema-equals-fresh',
        'match': 'the only unexplained-by-other-entries difference is the '
                 'column CHECK ("col" >= 0) of a PositiveIntegerField '
                 'column that the evolution added, changed or carried '
                 'through a rebuild',
        'what': 'BaseEvolutionOperations.build_column_schema never emits '
                'the db_check of a field, so PositiveIntegerField columns '
                'created by AddField/ChangeField or re-created by a '
                'rebuild lack the CHECK Django creates',
        'pred': _causes_pred('positive-integer-check-not-created'),
    },
    {
        'id': 'drop-index-after-rebuild-dropped-it',
        'clause': 'sql-executes',
        'match': 'DROP INDEX fails with "no such index" after a rebuild of '
                 'the same table earlier in the same run',
        'what': 'consequence of rebuild-loses-table-level-objects: the '
                'rebuild already dropped the Meta level index, the '
                'DatabaseState still lists it, so the later DROP INDEX '
                'generated for ChangeMeta/ChangeField fails',
        'pred': _error_pred('OperationalError', r'^no such index',
                            _after_rebuild),
    },
    {
        'id': 'check-constraint-taken-for-index',
        'clause': 'sql-executes',
        'match': 'DROP INDEX <name of a CHECK constraint of the table> '
                 '("__unnamed_constraint_N__" for a PositiveIntegerField, '
                 'or a Meta CheckConstraint name), no rebuild before it',
        'what': 'DatabaseState.rescan_tables records every entry of '
                'get_constraints(), including the unnamed column CHECK of '
                'a PositiveIntegerField, as an index on that column; '
                'ChangeField(db_index=False) then tries to DROP it',
        'pred': _error_pred('OperationalError', r'^no such index',
                            lambda sc, ob: _drops_check_as_index(sc, ob)),
    },
    {
        'id': 'type-change-across-relation-kinds',
        'clause': 'sql-executes',
        'match': 'ChangeField(field_type=..., related_model=...) between '
                 'a plain column, a ForeignKey and a ManyToManyField',
        'what': 'the hinted ChangeField for a relation<->plain type change '
                'is accepted by the simulation but CHANGE COLUMN TYPE only '
                'swaps the field object: the column name (n vs n_id) / '
                'm2m table is not handled and the INSERT..SELECT fails',
        'pred': _error_pred('OperationalError', r'has no column named',
                            _has_relation_type_change),
    },
    {
        'id': 'reset-db_column-or-db_table-crashes',
        'clause': 'accepted-evolution-crashes',
        'match': 'ChangeField(db_column=None) or ChangeField(<m2m>, '
                 'db_table=...) on a field without explicit db_table',
        'what': 'change_column_attr_db_column/db_table pass None straight '
                'to rename_column/rename_table -> quote_name(None) raises '
                'AttributeError during SQL generation (the library\'s own '
                'Diff produces db_column=None hints)',
        'pred': _error_pred('AttributeError', r"'startswith'",
                            _resets_column_or_table_name),
    },
    {
        'id': 'changefield-related_model-unsupported',
        'clause': 'accepted-evolution-crashes',
        'match': 'ChangeField(..., related_model=...) as produced by Diff',
        'what': 'ChangeField.mutate treats related_model as a column '
                'attribute and change_column_attrs looks up the missing '
                'change_column_attr_related_model',
        'pred': _error_pred('AttributeError',
                            r'change_column_attr_related_model'),
    },
]


KNOWN_C01.extend([
    {
        'id': 'check-constraint-taken-for-index',
        'clause': 'schema-equals-fresh',
        'match': 'ChangeField(db_index=True) on a PositiveIntegerField '
                 'column: the single-column index is missing',
        'what': 'the scanned DatabaseState lists the column CHECK as an '
                'index on the column, so create_index() believes the index '
                'exists and emits nothing',
        'pred': _causes_pred('check-constraint-taken-for-index'),
    },
    {
        'id': 'db-index-change-after-rebuild-op-ignored',
        'clause': 'schema-equals-fresh',
        'match': 'one run containing a rebuild-causing mutation on a model '
                 'FOLLOWED by ChangeField(<same model>, db_index=...): the '
                 'single-column index of that field is missing (True) or '
                 'still there (False)',
        'what': 'change_column_attr_db_index flips db_index on the field '
                'of the MockModel created for ITS op, but the merged '
                'SQLiteAlterTableSQLResult rebuilds and re-indexes from '
                'the MockModel of the FIRST op of the batch, and the SQL of '
                'evolver.create_index() is deliberately discarded',
        'pred': _causes_pred('db-index-change-after-rebuild-op-ignored'),
    },
    {
        'id': 'rename-model-keeps-m2m-column-names',
        'clause': 'schema-equals-fresh',
        'match': 'RenameModel of a model that is one end of an '
                 'auto-created many-to-many table: the differences are the '
                 '<oldmodel>_id / <newmodel>_id column of that table and '
                 'the indexes / foreign keys on it',
        'what': 'RenameModel only renames the model table (and fixes '
                'references); the column Django derives from the model '
                'name in the auto-created m2m table keeps the old name',
        'pred': _causes_pred('rename-model-keeps-m2m-column-names'),
    },
    {
        'id': 'type-change-across-relation-kinds',
        'clause': 'schema-equals-fresh',
        'match': 'ChangeField(field_type=..., related_model=...) between '
                 'a plain column, a ForeignKey and a ManyToManyField',
        'what': 'see the sql-executes entry of the same id: column name / '
                'm2m table / foreign key are not converted',
        'pred': _causes_pred('type-change-across-relation-kinds'),
    },
    {
        'id': 'unique-together-member-deleted-in-same-run',
        'clause': 'schema-equals-fresh',
        'match': 'ChangeMeta(unique_together=[..f..]) and DeleteField(f) in '
                 'one run: the unique index differs',
        'what': 'DeleteField.simulate shrinks unique_together to the '
                'remaining fields, but no index is created for the shrunk '
                'tuple and the index created for the original tuple is '
                'either lost with the rebuild or (batched) created on a '
                'table that no longer has the column (SQLite then indexes '
                'the string literal "f")',
        'pred': _causes_pred('unique-together-member-deleted-in-same-run'),
    },
])


KNOWN_C01.append({
    'id': 'index-on-renamed-column-not-dropped',
    'clause': 'schema-equals-fresh',
    'match': 'a column is renamed (ChangeField db_column / RenameField) '
             'and, in the same run, a ChangeMeta removes a multi-column '
             'index (index_together / unique_together / indexes) covering '
             'it: the index is still there',
    'what': 'rename_column() does not rename the column inside the '
            'DatabaseState index records, so the later lookup of the index '
            'by its (new) column names finds nothing and no DROP INDEX is '
            'generated',
    'pred': _causes_pred('index-on-renamed-column-not-dropped'),
})


def _feat_pred(name, error_class=None, message_re=None):
    """Error failure in a scenario that has sequence feature ``name``."""
    def pred(scenario, observed):
        error = observed.get('error') or {}

        if error_class and error.get('class') != error_class:
            return False

        if message_re and not re.search(message_re,
                                        error.get('message') or ''):
            return False

        feats = sequence_features(_muts_of(scenario, observed),
                                  batched=scenario.get('batched', True),
                                  spec=scenario.get('spec'))
        value = feats.get(name)

        if name == 'readded' and message_re:
            m = re.search(r'no column named (\w+)',
                          error.get('message') or '')
            return bool(m and m.group(1) in value)

        return bool(value)

    return pred


KNOWN_C01.extend([
    {
        'id': 'delete-and-readd-same-column-in-one-run',
        'clause': 'sql-executes',
        'match': 'DeleteField(m, f) followed in the same run by an '
                 'AddField / RenameField producing a field named f again; '
                 'INSERT INTO "TEMP_TABLE" fails with "no column named f"',
        'what': 'the merged rebuild filters new_fields with "column not in '
                'deleted_columns", which also removes the re-added column '
                'of the same name from CREATE TABLE while its initial '
                'value is still inserted',
        'pred': _feat_pred('readded', 'OperationalError',
                           r'has no column named'),
    },
    {
        'id': 'delete-and-readd-same-column-in-one-run',
        'clause': 'schema-equals-fresh',
        'match': 'as above with a nullable re-added column: the column is '
                 'simply missing',
        'what': 'same filter: the re-added column never reaches CREATE '
                'TABLE "TEMP_TABLE"',
        'pred': _causes_pred('delete-and-readd-same-column-in-one-run'),
    },
    {
        'id': 'type-change-with-column-name-change',
        'clause': 'sql-executes',
        'match': 'ChangeField(field_type=...) without db_column on a field '
                 'whose column name is custom (db_column set in the models, '
                 'by ChangeField or by RenameField) - also one at a time; '
                 'or a type change and a db_column change of one field '
                 'merged into one run',
        'what': 'a type change resets the field attributes, the new field '
                'gets the default column name in CREATE TABLE "TEMP_TABLE" '
                'while the INSERT still names the old custom column',
        'pred': _feat_pred('type_change_custom_column', 'OperationalError',
                           r'has no column named'),
    },
    {
        'id': 'rename-model-not-tracked-in-database-state',
        'clause': 'accepted-evolution-crashes',
        'match': 'RenameModel(old, new, db_table=<new table>) followed in '
                 'the same run by a mutation on <new> that registers an '
                 'index (db_index/unique/FK AddField, ChangeMeta ...)',
        'what': 'rename_table() generates SQL but never renames the table '
                'inside the DatabaseState, so add_index() on the new table '
                'name raises DatabaseStateError',
        'pred': _feat_pred('renamed_model_touched_later',
                           'DatabaseStateError', r'not being tracked'),
    },
    {
        'id': 'index-and-column-name-changed-in-one-run',
        'clause': 'schema-equals-fresh',
        'match': 'one run changes db_index/unique AND db_column of the '
                 'same field (two ChangeFields the optimiser merges, or '
                 'one): single-column index on the wrong/old column name',
        'what': 'change_column_attrs handles db_index/unique with the '
                'field object carrying the old column name and db_column '
                '(RENAME COLUMN) independently, in attribute order',
        'pred': _causes_pred('index-and-column-name-changed-in-one-run'),
    },
    {
        'id': 'index-and-column-name-changed-in-one-run',
        'clause': 'sql-executes',
        'match': 'same input class; CREATE INDEX names a column that was '
                 'renamed away ("no such column")',
        'what': 'see the schema-equals-fresh entry of the same id',
        'pred': _feat_pred('index_and_column_changed', 'OperationalError',
                           r'no such column'),
    },
    {
        'id': 'constraints-changed-twice-in-one-run',
        'clause': 'schema-equals-fresh',
        'match': 'two ChangeMeta(m, "constraints", ...) in one run (the '
                 'optimiser only de-duplicates unique_together/indexes)',
        'what': 'both ops land in one SQLiteAlterTableSQLResult; '
                'added_constraints is taken from the ADD CONSTRAINTS item '
                'even when a later REBUILD item means "none", so the '
                'constraint of the first op survives',
        'pred': _causes_pred('constraints-changed-twice-in-one-run'),
    },
    {
        'id': 'second-index-on-same-columns-skipped',
        'clause': 'schema-equals-fresh',
        'match': 'the evolved models declare two indexes on the same '
                 'column list (e.g. db_index=True and a Meta.indexes entry '
                 'on the same field); only one exists - also one at a time',
        'what': 'index creation is keyed on DatabaseState.find_index(columns)'
                ': an existing index on the same columns makes the '
                'evolver skip creating the second one',
        'pred': _causes_pred('second-index-on-same-columns-skipped'),
    },
    {
        'id': 'optimizer-noop-field-still-referenced',
        'clause': 'accepted-evolution-crashes',
        'match': 'AddField(m, f) ... ChangeMeta(m, ..., value naming f) ... '
                 'DeleteField(m, f) in one run',
        'what': '_process_mutation_batch removes the AddField/DeleteField '
                'pair as a no-op but keeps the ChangeMeta that names the '
                'field -> FieldDoesNotExist while generating SQL',
        'pred': _feat_pred('noop_field_in_changemeta', 'FieldDoesNotExist'),
    },
    {
        'id': 'optimizer-field-ids-ignore-model-renames',
        'clause': 'accepted-evolution-crashes',
        'match': 'field mutations on a model before and after a '
                 'RenameModel of it in one run',
        'what': '_get_mutation_id keys fields by the model name written in '
                'the mutation, so renames/deletes across a RenameModel are '
                'matched wrongly or not at all (AttributeError on a '
                'missing field signature)',
        'pred': _feat_pred('field_ids_across_model_rename',
                           'AttributeError', r"'field_type'"),
    },
])


KNOWN_C01.extend([
    {
        'id': 'unique-together-member-deleted-in-same-run',
        'clause': 'sql-executes',
        'match': 'ChangeMeta(unique_together=[..f..]) and DeleteField(f) in '
                 'one run; "error in index ..._uniq ...: no such column"',
        'what': 'see the schema-equals-fresh entry of the same id: the '
                'unique index for the original tuple is created although '
                'the column is dropped in the same run',
        'pred': _feat_pred('ut_member_deleted', 'OperationalError',
                           r'error in index .*no such column'),
    },
    {
        'id': 'm2m-table-rename-keeps-index-names',
        'clause': 'sql-executes',
        'match': 'a many-to-many field is renamed (its table is renamed) '
                 'and later a many-to-many field with the old name is added '
                 'again; "index ..._uniq already exists"',
        'what': 'rename_table() for the auto-created m2m table keeps the '
                'old index names, which collide with those of the new '
                'table of the same original name',
        'pred': _error_pred('OperationalError',
                            r'^index \w+ already exists',
                            lambda sc, ob: any(
                                d[0] in ('RenameField', 'RenameModel')
                                for d in _muts_of(sc, ob))),
    },
])


# ---------------------------------------------------------------------------
# C02 / C03 / C18 known findings
# ---------------------------------------------------------------------------

def initial_param_order_mismatch(spec, muts, batched=True):
    """Does some rebuild of the run bind >= 2 parameterised initial values
    whose order of appearance in the mutations differs from the order of
    their placeholders (existing columns in table order, then added
    columns in order of addition)?

    This is the exact input class of the field_initials/new_initial loop
    defect in SQLiteAlterTableSQLResult.to_sql.
    """
    if not batched:
        return False

    # What the optimiser does first: a RenameField whose new name is deleted
    # later in the batch is dropped (the DeleteField then names the old
    # name) -- it no longer separates two rebuilds.
    muts = [list(desc) for desc in muts]
    changed = True

    while changed:
        changed = False

        for index, desc in enumerate(muts):
            if desc[0] != 'RenameField':
                continue

            for later_index in range(index + 1, len(muts)):
                later = muts[later_index]

                if later[0] == 'SQLMutation':
                    break

                if later[0] in ('RenameField', 'AddField') and \
                   later[1] == desc[1] and desc[3] in later[2:4]:
                    break

                if (later[0] == 'DeleteField' and later[1] == desc[1] and
                    later[2] == desc[3]):
                    muts[later_index] = ['DeleteField', desc[1], desc[2]]
                    # mutations in between naming the new name now name
                    # the old one
                    for k in range(index + 1, later_index):
                        if (muts[k][0] in ('ChangeField',) and
                            muts[k][1] == desc[1] and
                            muts[k][2] == desc[3]):
                            muts[k] = [muts[k][0], muts[k][1], desc[2]] + \
                                muts[k][3:]

                    del muts[index]
                    changed = True
                    break

            if changed:
                break

    # All ChangeFields of one field in a batch are rolled up into the FIRST
    # one (AppMutator._copy_change_attrs), which keeps its position.
    index = 0

    while index < len(muts):
        desc = muts[index]

        if desc[0] == 'ChangeField':
            later_index = index + 1

            while later_index < len(muts):
                later = muts[later_index]

                if later[0] == 'SQLMutation':
                    break

                if later[0] in ('RenameField', 'DeleteField', 'AddField',
                                'RenameModel', 'DeleteModel') and (
                        later[1] == desc[1] and
                        desc[2] in later[2:4] or
                        later[0] in ('RenameModel', 'DeleteModel') and
                        later[1] == desc[1]):
                    break

                if (later[0] == 'ChangeField' and later[1] == desc[1] and
                    later[2] == desc[2]):
                    merged = dict(desc[3])
                    merged.update(later[3])
                    muts[index] = desc = ['ChangeField', desc[1], desc[2],
                                          merged]
                    del muts[later_index]
                    continue

                later_index += 1

        index += 1

    # RenameModel(x -> y) ... RenameModel(y -> x) collapses to a no-op
    # rename; mutations in between naming y really act on x.
    for index, desc in enumerate(muts):
        if desc[0] != 'RenameModel':
            continue

        for later_index in range(index + 1, len(muts)):
            later = muts[later_index]

            if later[0] == 'SQLMutation':
                break

            if (later[0] == 'RenameModel' and later[1] == desc[2] and
                later[2] == desc[1]):
                for k in range(index + 1, later_index):
                    if muts[k][0] != 'SQLMutation' and \
                       muts[k][1] == desc[2]:
                        muts[k] = [muts[k][0], desc[1]] + muts[k][2:]

                muts[later_index] = ['SQLMutation', '(folded)', [], 'sim']
                muts[index] = ['SQLMutation', '(folded)', [], 'sim']
                break

    muts = [desc for desc in muts if desc[1] != '(folded)']

    # ... and last: within each batch (SQLMutations separate batches) the
    # mutations are regrouped by sorted(model name), keeping their order.
    regrouped = []
    segment = []

    def close_segment():
        names = sorted(set(desc[1] for desc in segment))

        for name in names:
            regrouped.extend(desc for desc in segment if desc[1] == name)

        del segment[:]

    for desc in muts:
        if desc[0] in ('SQLMutation', 'DeleteApplication'):
            close_segment()
            regrouped.append(desc)
        else:
            segment.append(desc)

    close_segment()
    muts = regrouped

    state = SeqState(spec, protected=())
    runs = {}      # model -> list of (op order item)
    sig_order = {}
    mismatch = False

    def flush(model):
        items = runs.pop(model, [])
        params = [item for item in items if item[2]]

        if len(params) < 2:
            return False

        op_order = [item[1] for item in params]
        changed = [item for item in params if item[0] == 'change']
        added = [item for item in params if item[0] == 'add']
        order = sig_order.get(model, [])
        placeholder_order = ([item[1] for item in
                              sorted(changed, key=lambda it: (
                                  order.index(it[1]) if it[1] in order
                                  else len(order)))] +
                             [item[1] for item in added])

        return op_order != placeholder_order

    last_model = None

    for desc in muts:
        kind = desc[0]
        model = desc[1] if kind not in ('SQLMutation',
                                        'DeleteApplication') else None

        if model != last_model and last_model is not None:
            mismatch = flush(last_model) or mismatch

        last_model = model

        if model is None or model not in state.models:
            try:
                state.apply(desc)
            except Exception:
                pass

            continue

        # Placeholder order is the field order of the SIGNATURE the rebuild
        # works from: RenameField.simulate removes and re-adds the field
        # signature, i.e. a renamed field moves to the end.
        fields = sig_order.setdefault(
            model, list(state.models[model]['fields']))

        folded = (kind in ('RenameField', 'ChangeField') and any(
            item[0] == 'add' and item[1] == desc[2]
            for item in runs.get(model, [])))

        if (kind == 'RenameField' and not folded) or (
                kind == 'ChangeField' and 'field_type' in desc[3] and
                not folded):
            # not mergeable: the rebuild collected so far ends here (a
            # RenameField of a field added in the same batch is folded
            # into the AddField by the optimiser instead)
            mismatch = flush(model) or mismatch

        if kind == 'AddField':
            fields.append(desc[2])
        elif kind == 'RenameField' and desc[2] in fields:
            fields.remove(desc[2])
            fields.append(desc[3])
        elif kind == 'DeleteField' and desc[2] in fields:
            fields.remove(desc[2])

        if kind == 'AddField' and desc[3] != 'ManyToManyField':
            initial = (desc[4] or {}).get('initial')
            param = initial is not None and not (
                isinstance(initial, dict) and '__callable__' in initial)
            runs.setdefault(model, []).append(
                ('add', desc[2], param, len(fields)))
        elif kind == 'ChangeField':
            kwargs = desc[3]
            info = state.models[model]['fields'].get(desc[2])
            initial = kwargs.get('initial')

            if (info is not None and kwargs.get('null') is False and
                initial is not None):
                param = not (isinstance(initial, dict) and
                             '__callable__' in initial)
                position = desc[2]
                added_here = [i for i, item in
                              enumerate(runs.get(model, []))
                              if item[0] == 'add' and item[1] == desc[2]]

                if added_here:
                    # the optimiser folds it into the AddField
                    old = runs[model][added_here[0]]
                    runs[model][added_here[0]] = ('add', old[1], param,
                                                  old[3])
                else:
                    runs.setdefault(model, []).append(
                        ('change', desc[2], param, position))
        elif kind in ('RenameModel', 'DeleteModel'):
            mismatch = flush(model) or mismatch

            if kind == 'RenameModel' and model in sig_order:
                sig_order[desc[2]] = sig_order.pop(model)
        elif kind == 'RenameField':
            runs[model] = [
                (item[0], desc[3] if item[1] == desc[2] else item[1],
                 item[2], item[3]) for item in runs.get(model, [])]

        try:
            state.apply(desc)
        except Exception:
            pass

    if last_model is not None:
        mismatch = flush(last_model) or mismatch

    return mismatch


def folded_initial_overrides(muts, batched=True):
    """Is a mutation that populates a column (AddField with an initial value, or ChangeField(null=False, initial))
    followed, in the same optimisable batch, by a ChangeField of the same field that also carries an initial
    value?  The optimiser folds the second into the first and lets the later initial win."""
    if not batched:
        return False
    for i, first in enumerate(muts):
        if first[0] == 'AddField':
            attrs = first[4] if len(first) > 4 else {}
            populates = attrs.get('initial') is not None
        elif first[0] == 'ChangeField':
            attrs = first[3] if len(first) > 3 else {}
            populates = attrs.get('initial') is not None and attrs.get('null') is False
        else:
            continue
        if not populates:
            continue
        for later in muts[i + 1:]:
            if later[0] == 'SQLMutation':
                break
            if later[0] == 'ChangeField' and later[1:3] == first[1:3] and \
               (later[3] if len(later) > 3 else {}).get('initial') is not None:
                return True
    return False


KNOWN_C02[:] = [
    {
        'id': 'folded-changefield-initial-overrides-earlier',
        'clause': ['null-replaced-by-initial', 'added-column-initial'],
        'match': 'AddField(f, initial=A) or ChangeField(f, null=False, initial=A) followed in the same batch by '
                 'ChangeField(f, ..., initial=B) that does not itself need an initial value (e.g. unique=True)',
        'what': 'AppMutator._copy_change_attrs lets the later ChangeField\'s initial value replace the earlier '
                'mutation\'s when folding: existing NULLs / the new column are filled with B, while one mutation at '
                'a time fills them with A (4 existing tests in test_preprocessing assert the later value, so the '
                'repair is not a change the test suite accepts: recorded)',
        'pred': lambda sc, ob: folded_initial_overrides(sc['muts'], sc.get('batched', True)),
    },
    {
        'id': 'initial-values-bound-in-mutation-order',
        'clause': ['added-column-initial', 'null-replaced-by-initial',
                   'surviving-value-unchanged'],
        'match': 'one table rebuild carrying >= 2 parameterised (non '
                 'callable, non NULL) initial values whose order in the '
                 'mutation list differs from the placeholder order: '
                 'existing columns made NOT NULL come first in table '
                 'column order, added columns follow in order of addition. '
                 'I.e. any AddField(initial) listed BEFORE a '
                 'ChangeField(null=False, initial), or two '
                 'ChangeField(null=False, initial) listed against column '
                 'order.  [ChangeField..., AddField...] in column order is '
                 'fine, so is one mutation per run',
        'what': 'SQLiteAlterTableSQLResult.to_sql appends the bound values '
                'to field_initials while iterating new_initial (mutation '
                'order) but the "%s" placeholders sit in field_values '
                'order (column order), so values land in the wrong '
                'columns',
        'pred': lambda sc, ob: initial_param_order_mismatch(
            sc['spec'], sc['muts'], sc.get('batched', True)),
    },
]


def _c03_error_pred(feature=None, error_class=None, message_re=None,
                    extra=None):
    base = (_feat_pred(feature, error_class, message_re) if feature
            else _error_pred(error_class, message_re))

    def pred(scenario, observed):
        if not base(scenario, observed):
            return False

        return extra is None or extra(scenario, observed)

    return pred


_ACCEPTED = ['batched-accepted', 'evolver-accepted']
_SCHEMA = ['batched-same-schema', 'evolver-same-schema']
_ROWS = ['batched-same-rows', 'evolver-same-rows']

KNOWN_C03[:] = [
    {
        'id': 'optimizer-rewrites-mutations-in-place',
        'clause': 'definitions-unaltered',
        'match': 'any sequence in which _process_mutation_batch folds '
                 'mutations: AddField/ChangeField followed by ChangeField '
                 'of the same field (attrs/initial/field_type copied into '
                 'the earlier object), AddField or RenameField followed by '
                 'RenameField (field_name / new_field_name / db_column '
                 'rewritten), RenameField followed by DeleteField '
                 '(DeleteField.field_name rewritten), RenameModel chains',
        'what': 'AppMutator._process_mutation_batch / _copy_change_attrs '
                'assign to attributes of the caller\'s mutation objects '
                'instead of working on copies',
        'pred': lambda sc, ob: True,
    },
    {
        'id': 'optimizer-rewrites-mutations-in-place',
        'clause': ['rerun-same-result', 'evolver-accepted',
                   'evolver-same-signature', 'evolver-same-schema',
                   'evolver-same-rows'],
        'match': 'same input class (observed.altered is true): the second '
                 'processing of the rewritten objects (AppMutator again, '
                 'or EvolveAppTask.prepare() followed by _build_batches()) '
                 'fails or differs',
        'what': 'consequence of the in-place rewrite: e.g. after '
                '[AddField(x), RenameField(x, r)] the AddField already '
                'adds "r", so the second pass looks up a field "x" that '
                'never existed (AttributeError: NoneType has no '
                'field_type) or applies merged attributes twice',
        'pred': lambda sc, ob: bool(ob.get('altered')) and not any(
            c.startswith('batched-') for c in ob.get('also_failed', [])),
    },
    {
        'id': 'optimizer-regroups-by-model-name',
        'clause': _ACCEPTED,
        'match': 'mutations on >= 2 models whose order changes when the '
                 'mutations are grouped by sorted(model name): e.g. '
                 '[RenameModel(B -> Aa), <anything on Aa>], '
                 '[DeleteField(B.ref->A) or DeleteModel(B), DeleteModel(A)]',
        'what': '_process_mutation_batch ends with "for model_name in '
                'sorted(model_names)": mutations naming a model that sorts '
                'earlier are moved in front of the RenameModel creating it '
                '/ the deletion of its referrers',
        'pred': _c03_error_pred('reorder_sensitive'),
    },
    {
        'id': 'rename-model-not-tracked-in-database-state',
        'clause': _ACCEPTED,
        'match': 'see KNOWN_C01',
        'what': 'see KNOWN_C01 (one at a time the DatabaseState is '
                're-scanned, so only the optimised run fails)',
        'pred': _c03_error_pred('renamed_model_touched_later',
                                'DatabaseStateError', r'not being tracked'),
    },
    {
        'id': 'delete-and-readd-same-column-in-one-run',
        'clause': _ACCEPTED,
        'match': 'see KNOWN_C01',
        'what': 'see KNOWN_C01',
        'pred': _c03_error_pred('readded', 'OperationalError',
                                r'has no column named'),
    },
    {
        'id': 'type-change-with-column-name-change',
        'clause': _ACCEPTED,
        'match': 'see KNOWN_C01 (the merged variant only)',
        'what': 'see KNOWN_C01',
        'pred': _c03_error_pred('type_change_custom_column',
                                'OperationalError', r'has no column named'),
    },
    {
        'id': 'index-and-column-name-changed-in-one-run',
        'clause': _ACCEPTED,
        'match': 'see KNOWN_C01',
        'what': 'see KNOWN_C01',
        'pred': _c03_error_pred('index_and_column_changed',
                                'OperationalError', r'no such column'),
    },
    {
        'id': 'unique-together-member-deleted-in-same-run',
        'clause': _ACCEPTED,
        'match': 'see KNOWN_C01',
        'what': 'see KNOWN_C01',
        'pred': _c03_error_pred('ut_member_deleted', 'OperationalError',
                                r'error in index .*no such column'),
    },
    {
        'id': 'optimizer-noop-field-still-referenced',
        'clause': _ACCEPTED,
        'match': 'see KNOWN_C01',
        'what': 'see KNOWN_C01',
        'pred': _c03_error_pred('noop_field_in_changemeta',
                                'FieldDoesNotExist'),
    },
    {
        'id': 'optimizer-field-ids-ignore-model-renames',
        'clause': _ACCEPTED,
        'match': 'see KNOWN_C01',
        'what': 'see KNOWN_C01',
        'pred': _c03_error_pred('field_ids_across_model_rename'),
    },
    {
        'id': 'drop-index-after-rebuild-dropped-it',
        'clause': _ACCEPTED,
        'match': 'see KNOWN_C01 (one at a time the re-scanned '
                 'DatabaseState no longer lists the lost index)',
        'what': 'see KNOWN_C01',
        'pred': _c03_error_pred(None, 'OperationalError', r'^no such index',
                                _after_rebuild),
    },
    {
        'id': 'initial-values-bound-in-mutation-order',
        'clause': _ROWS,
        'match': 'see KNOWN_C02',
        'what': 'see KNOWN_C02',
        'pred': lambda sc, ob: initial_param_order_mismatch(
            sc['spec'], sc['muts']),
    },
]

KNOWN_C03[1]['pred'] = lambda sc, ob: bool(ob.get('altered')) and (
    ob.get('clause_hint') is None)


def _inplace_consequence(clause_family):
    def pred(scenario, observed):
        if not observed.get('altered'):
            return False

        also = observed.get('also_failed', [])

        return 'batched-' + clause_family not in also

    return pred


# Replace the generic consequence entry by one entry per clause, so that an
# Evolver-only failure is attributed to the in-place rewrite only when the
# bare optimised run did not fail the same way.
KNOWN_C03[1:2] = [
    {
        'id': 'optimizer-rewrites-mutations-in-place',
        'clause': 'rerun-same-result',
        'match': 'same input class (observed.altered is true): the second '
                 'AppMutator fed with the rewritten objects fails or '
                 'differs',
        'what': 'consequence of the in-place rewrite: e.g. after '
                '[AddField(x), RenameField(x, r)] the AddField already '
                'adds "r", so the second pass looks up a field "x" that '
                'never existed (AttributeError: NoneType has no '
                'field_type)',
        'pred': lambda sc, ob: bool(ob.get('altered')),
    },
] + [
    {
        'id': 'optimizer-rewrites-mutations-in-place',
        'clause': 'evolver-' + _family,
        'match': 'same input class, and the bare optimised run does not '
                 'fail batched-%s: EvolveAppTask.prepare() processes the '
                 'mutations, _build_batches() processes the SAME objects '
                 'again' % _family,
        'what': 'consequence of the in-place rewrite inside the real '
                'Evolver pipeline',
        'pred': _inplace_consequence(_family),
    }
    for _family in ('accepted', 'same-signature', 'same-schema',
                    'same-rows')
]

KNOWN_C03.extend([
    {
        'id': 'unique-together-member-deleted-in-same-run',
        'clause': _ACCEPTED,
        'match': 'see KNOWN_C01; here the unique index on the literal '
                 '"deleted column" + remaining columns hits duplicate rows',
        'what': 'see KNOWN_C01',
        'pred': _c03_error_pred('ut_member_deleted', 'IntegrityError',
                                r'UNIQUE constraint failed: index'),
    },
    {
        'id': 'optimizer-drops-rename-back-to-existing-name',
        'clause': ['batched-same-signature', 'batched-same-schema',
                   'batched-same-rows', 'evolver-same-signature',
                   'evolver-same-schema', 'evolver-same-rows'],
        'match': 'RenameModel(X -> Y) in one batch and, after a barrier '
                 '(SQLMutation), RenameModel(Y -> X) where X is a model '
                 'name of the start signature',
        'what': '_process_mutation_batch inspects the signature BEFORE any '
                'mutation of the run was simulated: "new name present and '
                'old name absent" then holds for the rename back, which is '
                'dropped as "already in the baseline"; the model stays Y',
        'pred': lambda sc, ob: sequence_features(
            sc['muts'], spec=sc['spec'])['rename_to_baseline_name'],
    },
    {
        'id': 'optimizer-merges-changefield-across-type-change',
        'clause': ['batched-same-signature', 'evolver-same-signature'],
        'match': 'ChangeField(f, attrs) followed in the same batch by '
                 'ChangeField(f, field_type=...)',
        'what': '_copy_change_attrs update()s the attributes of the later '
                'ChangeField into the earlier one; applied one at a time '
                'the type change RESETS the attributes (field_sig.'
                'field_attrs = self.field_attrs.copy()), so e.g. a '
                'db_index=True set just before is kept only when batched',
        'pred': lambda sc, ob: sequence_features(
            sc['muts'], spec=sc['spec'])['changefield_then_type_change'],
    },
])

for _cause in ('rename-model-not-tracked-in-database-state',
               'optimizer-merges-changefield-across-type-change',
               'rebuild-loses-table-level-objects',
               'positive-integer-check-not-created',
               'db-index-change-after-rebuild-op-ignored',
               'delete-and-readd-same-column-in-one-run',
               'index-and-column-name-changed-in-one-run',
               'constraints-changed-twice-in-one-run',
               'second-index-on-same-columns-skipped',
               'unique-together-member-deleted-in-same-run',
               'index-on-renamed-column-not-dropped',
               'rename-model-keeps-m2m-column-names'):
    KNOWN_C03.append({
        'id': _cause,
        'clause': _SCHEMA,
        'match': 'see KNOWN_C01: the defect strikes only one of the two '
                 'runs (or at different points), so the schemas differ',
        'what': 'see KNOWN_C01',
        'pred': _causes_pred(_cause),
    })


_NULL_ROUNDTRIP = {
    'id': 'optimizer-merges-away-null-roundtrip',
    'match': 'ChangeField(f, null=False, initial=I) followed in the same '
             'batch by ChangeField(f, null=True)',
    'what': '_copy_change_attrs folds both into one ChangeField whose '
            'final null=True wins, so the NULLs that the first change '
            'replaces by I when applied on its own stay NULL',
    'pred': lambda sc, ob: sequence_features(
        sc['muts'], batched=sc.get('batched', True),
        spec=sc['spec'])['null_roundtrip'],
}
KNOWN_C02.append(dict(_NULL_ROUNDTRIP, clause='null-replaced-by-initial'))
KNOWN_C03.append(dict(_NULL_ROUNDTRIP, clause=_ROWS))

KNOWN_C02.append({
    'id': 'delete-and-readd-same-column-in-one-run',
    'clause': 'column-present',
    'match': 'see KNOWN_C01: DeleteField(m, f) and a later AddField / '
             'RenameField producing f again in the same run; the re-added '
             '(nullable) column does not exist at all',
    'what': 'see KNOWN_C01',
    'pred': lambda sc, ob: ob.get('column') in sequence_features(
        sc['muts'], batched=sc.get('batched', True),
        spec=sc['spec'])['readded'],
})


KNOWN_C02.append({
    'id': 'delete-and-readd-same-column-in-one-run',
    'clause': 'added-column-initial',
    'match': 'see KNOWN_C01, followed by another rebuild of the table in '
             'the same run: the re-added column holds its own NAME as a '
             'string in every row',
    'what': 'the first (merged) rebuild loses the re-added column, the '
            'next rebuild SELECTs "f" from a table without column f and '
            'SQLite reads the double-quoted name as a string literal',
    'pred': lambda sc, ob: ob.get('column') in sequence_features(
        sc['muts'], batched=sc.get('batched', True),
        spec=sc['spec'])['readded'],
})


def _readded_pred(with_signature):
    def pred(scenario, observed):
        feats = sequence_features(scenario['muts'], spec=scenario['spec'])

        if not feats['readded']:
            return False

        signature_failed = any(
            c.endswith('same-signature')
            for c in observed.get('also_failed', []))

        return signature_failed == with_signature

    return pred


KNOWN_C03.extend([
    {
        'id': 'optimizer-confuses-reused-field-names',
        'clause': ['batched-same-signature', 'evolver-same-signature',
                   'batched-same-schema', 'evolver-same-schema',
                   'batched-same-rows', 'evolver-same-rows'],
        'match': 'a field name is deleted and, later in the same batch, '
                 'added again or made the target of a RenameField (and '
                 'possibly deleted again); the final SIGNATURE differs',
        'what': '_process_mutation_batch keys its bookkeeping '
                '(deleted_fields / noop_fields / renames) on (model, field '
                'name) over the whole batch, so a later use of the name is '
                'matched with the earlier DeleteField / AddField of the '
                'previous field of that name',
        'pred': _readded_pred(True),
    },
    {
        'id': 'delete-and-readd-same-column-in-one-run',
        'clause': ['batched-same-rows', 'evolver-same-rows'],
        'match': 'see KNOWN_C01 (signature equal, the re-added column is '
                 'missing or filled with its own name)',
        'what': 'see KNOWN_C01',
        'pred': _readded_pred(False),
    },
])


def _seq_feat_pred(name):
    return lambda sc, ob: bool(sequence_features(
        sc['muts'], spec=sc['spec'])[name])


KNOWN_C03.extend([
    {
        'id': 'optimizer-collapses-column-name-chain',
        'clause': ['batched-same-signature', 'evolver-same-signature',
                   'batched-same-rows', 'evolver-same-rows'],
        'match': 'one field gets its column name decided >= 2 times in one '
                 'batch: RenameField(.., db_column=c) then RenameField '
                 '(which alone resets the column to the new field name), or '
                 'RenameField followed by ChangeField(db_column=...)',
        'what': 'the rename chain is collapsed into the FIRST RenameField '
                '/ AddField by rewriting new_field_name only (db_column is '
                'copied only from the last rename when set), and '
                'ChangeFields are renamed rather than re-evaluated, so the '
                'final db_column is the stale one of an earlier step',
        'pred': _seq_feat_pred('column_name_chain'),
    },
    {
        'id': 'optimizer-collapses-column-name-chain',
        'clause': _SCHEMA,
        'match': 'same input class: the column / its index carries the '
                 'stale name',
        'what': 'see above',
        'pred': _causes_pred('optimizer-collapses-column-name-chain'),
    },
    {
        'id': 'optimizer-retargets-added-relation-before-rename',
        'clause': _ACCEPTED,
        'match': 'AddField(m, f, ForeignKey/ManyToManyField, '
                 'related_model=app.X) followed in the same batch by '
                 'RenameModel(X -> Y) where m sorts before X',
        'what': 'the second pass rewrites related_model of the AddField to '
                'the NEW model name, but the regrouping by model name runs '
                'the AddField before the RenameModel, when only X exists '
                '(MissingSignatureError for app.Y)',
        'pred': _c03_error_pred('added_relation_then_target_renamed',
                                'MissingSignatureError'),
    },
    {
        'id': 'optimizer-confuses-reused-field-names',
        'clause': _ACCEPTED,
        'match': 'see the signature entry of the same id; here the run is '
                 'rejected (AttributeError on a missing field signature, '
                 '"A field with this name already exists", duplicate '
                 'column name)',
        'what': 'see the signature entry of the same id',
        'pred': _c03_error_pred('readded'),
    },
    {
        'id': 'optimizer-merges-changefield-across-type-change',
        'clause': _ACCEPTED + _ROWS,
        'match': 'see the signature entry of the same id (attributes set '
                 'before a type change survive it when batched, e.g. '
                 'null=False without the rows having been fixed)',
        'what': 'see the signature entry of the same id',
        'pred': _seq_feat_pred('changefield_then_type_change'),
    },
])


# ---------------------------------------------------------------------------
# Concrete witnesses of the KNOWN entries (smallest failing scenario found
# by the quick/thorough runs on the pinned tree; generated, do not edit).
# Keys: '<suite>|<clause>|<known id>'.  '@NAME' stands for a module constant.
# ---------------------------------------------------------------------------

# --- BEGIN GENERATED WITNESSES ---
_WITNESS_JSON = r'''
{
 "C03|evolver-same-signature|optimizer-rewrites-mutations-in-place": {
  "spec": "@SEQ_SPEC", "rows": "@SEQ_ROWS", "evolver_parts": [1, 2],
  "muts": [["AddField", "A", "x", "CharField", {"max_length": 8, "initial": "i'%"}],
           ["RenameField", "A", "x", "r", {"db_column": "col_r"}],
           ["RenameField", "A", "a3", "x", {}],
           ["DeleteField", "A", "r"]]
 },
 "C03|evolver-same-schema|optimizer-rewrites-mutations-in-place": {
  "spec": "@SEQ_SPEC", "rows": "@SEQ_ROWS", "evolver_parts": [1, 2],
  "muts": [["AddField", "A", "x", "CharField", {"max_length": 8, "initial": "i'%"}],
           ["RenameField", "A", "x", "r", {"db_column": "col_r"}],
           ["RenameField", "A", "a3", "x", {}],
           ["DeleteField", "A", "r"]]
 },
 "C03|evolver-same-rows|optimizer-rewrites-mutations-in-place": {
  "spec": "@SEQ_SPEC", "rows": "@SEQ_ROWS", "evolver_parts": [1, 2],
  "muts": [["AddField", "A", "x", "CharField", {"max_length": 8, "initial": "i'%"}],
           ["RenameField", "A", "x", "r", {"db_column": "col_r"}],
           ["RenameField", "A", "a3", "x", {}],
           ["DeleteField", "A", "r"]]
 },
 "C03|batched-same-rows|optimizer-folded-initial-later-wins": {
  "spec": "@SEQ_SPEC", "rows": "@SEQ_ROWS", "evolver_parts": [1, 2],
  "muts": [["AddField", "B", "x", "CharField", {"max_length": 8, "initial": "i'%"}],
           ["ChangeField", "B", "x", {"null": true}],
           ["ChangeField", "B", "x", {"null": false, "initial": "n%"}]]
 },
 "C02|null-replaced-by-initial|folded-changefield-initial-overrides-earlier": {
  "family": "init",
  "spec": "@INIT_SPEC",
  "rows": {"T": [{"f1": "one", "f2": 1, "f3": null, "keep": "keep-0"}], "Z": [{"z1": "zz", "z2": 5}]},
  "muts": [["ChangeField", "T", "f3", {"null": false, "initial": "F3 50%"}],
           ["ChangeField", "T", "f3", {"unique": true, "initial": "U3"}]]
 },
 "C01|accepted-evolution-crashes|changefield-related_model-unsupported": {
  "bystanders": [
   "Z"
  ],
  "family": "hinted",
  "muts": null,
  "pair": [
   "plus-int",
   "plus-fk"
  ],
  "rows": {
   "P": [
    {
     "name": "plai#0"
    }
   ],
   "T": [
    {
     "c": "0plain",
     "i": 11,
     "n": 11,
     "u": "plai#0",
     "x": 11
    }
   ],
   "Z": [
    {
     "z1": "plai#0",
     "z2": 11
    }
   ]
  },
  "spec": {
   "P": {
    "fields": {
     "name": [
      "CharField",
      {
       "max_length": 20,
       "unique": true
      }
     ]
    },
    "meta": {}
   },
   "T": {
    "fields": {
     "c": [
      "CharField",
      {
       "max_length": 20
      }
     ],
     "i": [
      "IntegerField",
      {
       "null": true
      }
     ],
     "n": [
      "IntegerField",
      {
       "null": true
      }
     ],
     "u": [
      "CharField",
      {
       "max_length": 10,
       "unique": true
      }
     ],
     "x": [
      "IntegerField",
      {
       "db_index": true
      }
     ]
    },
    "meta": {}
   },
   "Z": {
    "fields": {
     "z1": [
      "CharField",
      {
       "max_length": 8,
       "unique": true
      }
     ],
     "z2": [
      "IntegerField",
      {
       "db_index": true
      }
     ]
    },
    "meta": {
     "unique_together": [
      [
       "z1",
       "z2"
      ]
     ]
    }
   }
  },
  "target": {
   "P": {
    "fields": {
     "name": [
      "CharField",
      {
       "max_length": 20,
       "unique": true
      }
     ]
    },
    "meta": {}
   },
   "T": {
    "fields": {
     "c": [
      "CharField",
      {
       "max_length": 20
      }
     ],
     "i": [
      "IntegerField",
      {
       "null": true
      }
     ],
     "n": [
      "ForeignKey",
      {
       "null": true,
       "to": "P"
      }
     ],
     "u": [
      "CharField",
      {
       "max_length": 10,
       "unique": true
      }
     ],
     "x": [
      "IntegerField",
      {
       "db_index": true
      }
     ]
    },
    "meta": {}
   },
   "Z": {
    "fields": {
     "z1": [
      "CharField",
      {
       "max_length": 8,
       "unique": true
      }
     ],
     "z2": [
      "IntegerField",
      {
       "db_index": true
      }
     ]
    },
    "meta": {
     "unique_together": [
      [
       "z1",
       "z2"
      ]
     ]
    }
   }
  }
 },
 "C01|accepted-evolution-crashes|optimizer-field-ids-ignore-model-renames": {
  "bystanders": [
   "Z"
  ],
  "family": "sequence",
  "muts": [
   [
    "RenameModel",
    "A",
    "C",
    "tests_a"
   ],
   [
    "RenameField",
    "C",
    "a1",
    "r",
    {
     "db_column": "col_r"
    }
   ],
   [
    "RenameModel",
    "C",
    "A",
    "tests_a"
   ],
   [
    "DeleteField",
    "A",
    "r"
   ]
  ],
  "rows": {
   "A": [
    {
     "a1": "first",
     "a2": 1,
     "a3": "x"
    }
   ],
   "B": [
    {
     "b1": 10,
     "ref": 1
    }
   ],
   "Z": [
    {
     "z1": "z-one",
     "z2": 1
    }
   ]
  },
  "spec": "@SEQ_SPEC"
 },
 "C01|accepted-evolution-crashes|optimizer-noop-field-still-referenced": {
  "bystanders": [
   "Z"
  ],
  "family": "sequence",
  "muts": [
   [
    "AddField",
    "A",
    "y",
    "IntegerField",
    {
     "initial": 7
    }
   ],
   [
    "ChangeMeta",
    "A",
    "unique_together",
    [
     [
      "a1",
      "y"
     ]
    ]
   ],
   [
    "ChangeField",
    "A",
    "a3",
    {
     "max_length": 15
    }
   ],
   [
    "DeleteField",
    "A",
    "y"
   ],
   [
    "AddField",
    "B",
    "x",
    "CharField",
    {
     "initial": "i'%",
     "max_length": 8
    }
   ]
  ],
  "rows": {
   "A": [
    {
     "a1": "first",
     "a2": 1,
     "a3": "x"
    }
   ],
   "B": [
    {
     "b1": 10,
     "ref": 1
    }
   ],
   "Z": [
    {
     "z1": "z-one",
     "z2": 1
    }
   ]
  },
  "spec": "@SEQ_SPEC"
 },
 "C01|accepted-evolution-crashes|rename-model-not-tracked-in-database-state": {
  "bystanders": [
   "Z"
  ],
  "family": "sequence",
  "muts": [
   [
    "RenameModel",
    "A",
    "C",
    "tests_c"
   ],
   [
    "ChangeField",
    "C",
    "a3",
    {
     "unique": true
    }
   ]
  ],
  "rows": {
   "A": [
    {
     "a1": "first",
     "a2": 1,
     "a3": "x"
    }
   ],
   "B": [
    {
     "b1": 10,
     "ref": 1
    }
   ],
   "Z": [
    {
     "z1": "z-one",
     "z2": 1
    }
   ]
  },
  "spec": "@SEQ_SPEC"
 },
 "C01|accepted-evolution-crashes|reset-db_column-or-db_table-crashes": {
  "bystanders": [
   "Z"
  ],
  "family": "change-plain",
  "muts": [
   [
    "ChangeField",
    "T",
    "n",
    {
     "db_table": "moved_m2m"
    }
   ]
  ],
  "rows": {
   "P": [
    {
     "name": "plai#0"
    }
   ],
   "T": [
    {
     "c": "0plain",
     "i": 11,
     "u": "plai#0",
     "x": 11
    }
   ],
   "Z": [
    {
     "z1": "plai#0",
     "z2": 11
    }
   ],
   "tests_t_n": [
    {
     "p_id": 1,
     "t_id": 1
    }
   ]
  },
  "spec": {
   "P": {
    "fields": {
     "name": [
      "CharField",
      {
       "max_length": 20,
       "unique": true
      }
     ]
    },
    "meta": {}
   },
   "T": {
    "fields": {
     "c": [
      "CharField",
      {
       "max_length": 20
      }
     ],
     "i": [
      "IntegerField",
      {
       "null": true
      }
     ],
     "n": [
      "ManyToManyField",
      {
       "to": "P"
      }
     ],
     "u": [
      "CharField",
      {
       "max_length": 10,
       "unique": true
      }
     ],
     "x": [
      "IntegerField",
      {
       "db_index": true
      }
     ]
    },
    "meta": {}
   },
   "Z": {
    "fields": {
     "z1": [
      "CharField",
      {
       "max_length": 8,
       "unique": true
      }
     ],
     "z2": [
      "IntegerField",
      {
       "db_index": true
      }
     ]
    },
    "meta": {
     "unique_together": [
      [
       "z1",
       "z2"
      ]
     ]
    }
   }
  }
 },
 "C01|schema-equals-fresh|check-constraint-taken-for-index": {
  "bystanders": [
   "Z"
  ],
  "family": "change-plain",
  "muts": [
   [
    "ChangeField",
    "T",
    "n",
    {
     "db_index": true
    }
   ]
  ],
  "rows": {
   "P": [
    {
     "name": "plai#0"
    }
   ],
   "T": [
    {
     "c": "0plain",
     "i": 11,
     "n": 10,
     "u": "plai#0",
     "x": 11
    }
   ],
   "Z": [
    {
     "z1": "plai#0",
     "z2": 11
    }
   ]
  },
  "spec": {
   "P": {
    "fields": {
     "name": [
      "CharField",
      {
       "max_length": 20,
       "unique": true
      }
     ]
    },
    "meta": {}
   },
   "T": {
    "fields": {
     "c": [
      "CharField",
      {
       "max_length": 20
      }
     ],
     "i": [
      "IntegerField",
      {
       "null": true
      }
     ],
     "n": [
      "PositiveIntegerField",
      {}
     ],
     "u": [
      "CharField",
      {
       "max_length": 10,
       "unique": true
      }
     ],
     "x": [
      "IntegerField",
      {
       "db_index": true
      }
     ]
    },
    "meta": {}
   },
   "Z": {
    "fields": {
     "z1": [
      "CharField",
      {
       "max_length": 8,
       "unique": true
      }
     ],
     "z2": [
      "IntegerField",
      {
       "db_index": true
      }
     ]
    },
    "meta": {
     "unique_together": [
      [
       "z1",
       "z2"
      ]
     ]
    }
   }
  }
 },
 "C01|schema-equals-fresh|constraints-changed-twice-in-one-run": {
  "bystanders": [
   "Z"
  ],
  "family": "sequence",
  "muts": [
   [
    "ChangeMeta",
    "A",
    "constraints",
    [
     {
      "fields": [
       "a1"
      ],
      "name": "uc_a",
      "type": {
       "__cls__": "UniqueConstraint"
      }
     }
    ]
   ],
   [
    "ChangeMeta",
    "A",
    "constraints",
    []
   ]
  ],
  "rows": {
   "A": [
    {
     "a1": "first",
     "a2": 1,
     "a3": "x"
    }
   ],
   "B": [
    {
     "b1": 10,
     "ref": 1
    }
   ],
   "Z": [
    {
     "z1": "z-one",
     "z2": 1
    }
   ]
  },
  "spec": "@SEQ_SPEC"
 },
 "C01|schema-equals-fresh|db-index-change-after-rebuild-op-ignored": {
  "bystanders": [
   "Z"
  ],
  "family": "sequence",
  "muts": [
   [
    "DeleteField",
    "A",
    "a1"
   ],
   [
    "ChangeField",
    "A",
    "a2",
    {
     "db_index": true
    }
   ]
  ],
  "rows": {
   "A": [
    {
     "a1": "first",
     "a2": 1,
     "a3": "x"
    }
   ],
   "B": [
    {
     "b1": 10,
     "ref": 1
    }
   ],
   "Z": [
    {
     "z1": "z-one",
     "z2": 1
    }
   ]
  },
  "spec": "@SEQ_SPEC"
 },
 "C01|schema-equals-fresh|delete-and-readd-same-column-in-one-run": {
  "bystanders": [
   "Z"
  ],
  "family": "sequence",
  "muts": [
   [
    "DeleteField",
    "A",
    "a1"
   ],
   [
    "AddField",
    "A",
    "a1",
    "CharField",
    {
     "max_length": 8,
     "null": true
    }
   ]
  ],
  "rows": {
   "A": [
    {
     "a1": "first",
     "a2": 1,
     "a3": "x"
    }
   ],
   "B": [
    {
     "b1": 10,
     "ref": 1
    }
   ],
   "Z": [
    {
     "z1": "z-one",
     "z2": 1
    }
   ]
  },
  "spec": "@SEQ_SPEC"
 },
 "C01|schema-equals-fresh|index-and-column-name-changed-in-one-run": {
  "bystanders": [
   "Z"
  ],
  "family": "sequence",
  "muts": [
   [
    "ChangeField",
    "A",
    "a1",
    {
     "db_index": true
    }
   ],
   [
    "ChangeField",
    "A",
    "a1",
    {
     "db_column": "c_a1"
    }
   ]
  ],
  "rows": {
   "A": [
    {
     "a1": "first",
     "a2": 1,
     "a3": "x"
    }
   ],
   "B": [
    {
     "b1": 10,
     "ref": 1
    }
   ],
   "Z": [
    {
     "z1": "z-one",
     "z2": 1
    }
   ]
  },
  "spec": "@SEQ_SPEC"
 },
 "C01|schema-equals-fresh|index-on-renamed-column-not-dropped": {
  "bystanders": [
   "Z"
  ],
  "family": "hinted",
  "muts": null,
  "pair": [
   "it-ix",
   "x-plain-col"
  ],
  "rows": {
   "P": [
    {
     "name": "plai#0"
    }
   ],
   "T": [
    {
     "c": "0plain",
     "i": 11,
     "u": "plai#0",
     "x": 11
    }
   ],
   "Z": [
    {
     "z1": "plai#0",
     "z2": 11
    }
   ]
  },
  "spec": {
   "P": {
    "fields": {
     "name": [
      "CharField",
      {
       "max_length": 20,
       "unique": true
      }
     ]
    },
    "meta": {}
   },
   "T": {
    "fields": {
     "c": [
      "CharField",
      {
       "max_length": 20
      }
     ],
     "i": [
      "IntegerField",
      {
       "null": true
      }
     ],
     "u": [
      "CharField",
      {
       "max_length": 10,
       "unique": true
      }
     ],
     "x": [
      "IntegerField",
      {
       "db_index": true
      }
     ]
    },
    "meta": {
     "index_together": [
      [
       "c",
       "x"
      ]
     ],
     "indexes": [
      {
       "fields": [
        "i"
       ],
       "name": "ix_i"
      }
     ]
    }
   },
   "Z": {
    "fields": {
     "z1": [
      "CharField",
      {
       "max_length": 8,
       "unique": true
      }
     ],
     "z2": [
      "IntegerField",
      {
       "db_index": true
      }
     ]
    },
    "meta": {
     "unique_together": [
      [
       "z1",
       "z2"
      ]
     ]
    }
   }
  },
  "target": {
   "P": {
    "fields": {
     "name": [
      "CharField",
      {
       "max_length": 20,
       "unique": true
      }
     ]
    },
    "meta": {}
   },
   "T": {
    "fields": {
     "c": [
      "CharField",
      {
       "max_length": 20
      }
     ],
     "i": [
      "IntegerField",
      {
       "null": true
      }
     ],
     "u": [
      "CharField",
      {
       "max_length": 10,
       "unique": true
      }
     ],
     "x": [
      "IntegerField",
      {
       "db_column": "x_col"
      }
     ]
    },
    "meta": {}
   },
   "Z": {
    "fields": {
     "z1": [
      "CharField",
      {
       "max_length": 8,
       "unique": true
      }
     ],
     "z2": [
      "IntegerField",
      {
       "db_index": true
      }
     ]
    },
    "meta": {
     "unique_together": [
      [
       "z1",
       "z2"
      ]
     ]
    }
   }
  }
 },
 "C01|schema-equals-fresh|optimizer-merges-changefield-across-type-change": {
  "bystanders": [
   "Z"
  ],
  "family": "sequence",
  "muts": [
   [
    "AddField",
    "B",
    "y",
    "CharField",
    {
     "max_length": 8,
     "null": true
    }
   ],
   [
    "AddField",
    "B",
    "lnk",
    "ManyToManyField",
    {
     "related_model": "tests.A"
    }
   ],
   [
    "ChangeMeta",
    "B",
    "unique_together",
    [
     [
      "b1",
      "y"
     ]
    ]
   ],
   [
    "RenameField",
    "B",
    "ref",
    "r",
    {}
   ],
   [
    "AddField",
    "A",
    "x",
    "IntegerField",
    {
     "initial": 7
    }
   ],
   [
    "ChangeField",
    "B",
    "y",
    {
     "field_type": "TextField",
     "null": true
    }
   ],
   [
    "RenameField",
    "A",
    "a1",
    "r",
    {}
   ],
   [
    "DeleteField",
    "B",
    "b1"
   ]
  ],
  "rows": {
   "A": [
    {
     "a1": "first",
     "a2": 1,
     "a3": "x"
    }
   ],
   "B": [
    {
     "b1": 10,
     "ref": 1
    }
   ],
   "Z": [
    {
     "z1": "z-one",
     "z2": 1
    }
   ]
  },
  "spec": "@SEQ_SPEC"
 },
 "C01|schema-equals-fresh|positive-integer-check-not-created": {
  "bystanders": [
   "Z"
  ],
  "family": "add-plain",
  "muts": [
   [
    "AddField",
    "T",
    "n",
    "PositiveIntegerField",
    {
     "initial": 4
    }
   ]
  ],
  "rows": {
   "P": [
    {
     "name": "plai#0"
    }
   ],
   "T": [
    {
     "c": "0plain",
     "i": 11,
     "u": "plai#0",
     "x": 11
    }
   ],
   "Z": [
    {
     "z1": "plai#0",
     "z2": 11
    }
   ]
  },
  "spec": "@C01_PLAIN"
 },
 "C01|schema-equals-fresh|rebuild-loses-table-level-objects": {
  "batched": false,
  "bystanders": [
   "Z"
  ],
  "family": "sequence-unbatched",
  "muts": [
   [
    "ChangeMeta",
    "A",
    "index_together",
    [
     [
      "a1",
      "a2"
     ]
    ]
   ],
   [
    "DeleteField",
    "A",
    "a3"
   ]
  ],
  "rows": {
   "A": [
    {
     "a1": "first",
     "a2": 1,
     "a3": "x"
    }
   ],
   "B": [
    {
     "b1": 10,
     "ref": 1
    }
   ],
   "Z": [
    {
     "z1": "z-one",
     "z2": 1
    }
   ]
  },
  "spec": "@SEQ_SPEC"
 },
 "C01|schema-equals-fresh|rename-model-keeps-m2m-column-names": {
  "batched": false,
  "bystanders": [
   "Z"
  ],
  "family": "sequence-unbatched",
  "muts": [
   [
    "AddField",
    "B",
    "lnk",
    "ManyToManyField",
    {
     "related_model": "tests.A"
    }
   ],
   [
    "RenameModel",
    "A",
    "C",
    "tests_c"
   ]
  ],
  "rows": {
   "A": [
    {
     "a1": "first",
     "a2": 1,
     "a3": "x"
    }
   ],
   "B": [
    {
     "b1": 10,
     "ref": 1
    }
   ],
   "Z": [
    {
     "z1": "z-one",
     "z2": 1
    }
   ]
  },
  "spec": "@SEQ_SPEC"
 },
 "C01|schema-equals-fresh|second-index-on-same-columns-skipped": {
  "bystanders": [
   "Z"
  ],
  "family": "sequence",
  "muts": [
   [
    "ChangeField",
    "A",
    "a1",
    {
     "db_index": true
    }
   ],
   [
    "ChangeMeta",
    "A",
    "indexes",
    [
     {
      "fields": [
       "a1"
      ],
      "name": "ix_a"
     }
    ]
   ]
  ],
  "rows": {
   "A": [
    {
     "a1": "first",
     "a2": 1,
     "a3": "x"
    }
   ],
   "B": [
    {
     "b1": 10,
     "ref": 1
    }
   ],
   "Z": [
    {
     "z1": "z-one",
     "z2": 1
    }
   ]
  },
  "spec": "@SEQ_SPEC"
 },
 "C01|schema-equals-fresh|type-change-across-relation-kinds": {
  "bystanders": [
   "Z"
  ],
  "family": "hinted",
  "muts": null,
  "pair": [
   "plus-fk",
   "plus-int"
  ],
  "rows": {
   "P": [
    {
     "name": "plai#0"
    }
   ],
   "T": [
    {
     "c": "0plain",
     "i": 11,
     "n": 1,
     "u": "plai#0",
     "x": 11
    }
   ],
   "Z": [
    {
     "z1": "plai#0",
     "z2": 11
    }
   ]
  },
  "spec": {
   "P": {
    "fields": {
     "name": [
      "CharField",
      {
       "max_length": 20,
       "unique": true
      }
     ]
    },
    "meta": {}
   },
   "T": {
    "fields": {
     "c": [
      "CharField",
      {
       "max_length": 20
      }
     ],
     "i": [
      "IntegerField",
      {
       "null": true
      }
     ],
     "n": [
      "ForeignKey",
      {
       "null": true,
       "to": "P"
      }
     ],
     "u": [
      "CharField",
      {
       "max_length": 10,
       "unique": true
      }
     ],
     "x": [
      "IntegerField",
      {
       "db_index": true
      }
     ]
    },
    "meta": {}
   },
   "Z": {
    "fields": {
     "z1": [
      "CharField",
      {
       "max_length": 8,
       "unique": true
      }
     ],
     "z2": [
      "IntegerField",
      {
       "db_index": true
      }
     ]
    },
    "meta": {
     "unique_together": [
      [
       "z1",
       "z2"
      ]
     ]
    }
   }
  },
  "target": {
   "P": {
    "fields": {
     "name": [
      "CharField",
      {
       "max_length": 20,
       "unique": true
      }
     ]
    },
    "meta": {}
   },
   "T": {
    "fields": {
     "c": [
      "CharField",
      {
       "max_length": 20
      }
     ],
     "i": [
      "IntegerField",
      {
       "null": true
      }
     ],
     "n": [
      "IntegerField",
      {
       "null": true
      }
     ],
     "u": [
      "CharField",
      {
       "max_length": 10,
       "unique": true
      }
     ],
     "x": [
      "IntegerField",
      {
       "db_index": true
      }
     ]
    },
    "meta": {}
   },
   "Z": {
    "fields": {
     "z1": [
      "CharField",
      {
       "max_length": 8,
       "unique": true
      }
     ],
     "z2": [
      "IntegerField",
      {
       "db_index": true
      }
     ]
    },
    "meta": {
     "unique_together": [
      [
       "z1",
       "z2"
      ]
     ]
    }
   }
  }
 },
 "C01|schema-equals-fresh|unique-together-member-deleted-in-same-run": {
  "bystanders": [
   "Z"
  ],
  "family": "sequence",
  "muts": [
   [
    "ChangeMeta",
    "A",
    "unique_together",
    [
     [
      "a1",
      "a3"
     ]
    ]
   ],
   [
    "DeleteField",
    "A",
    "a1"
   ]
  ],
  "rows": {
   "A": [
    {
     "a1": "first",
     "a2": 1,
     "a3": "x"
    }
   ],
   "B": [
    {
     "b1": 10,
     "ref": 1
    }
   ],
   "Z": [
    {
     "z1": "z-one",
     "z2": 1
    }
   ]
  },
  "spec": "@SEQ_SPEC"
 },
 "C01|sql-executes|check-constraint-taken-for-index": {
  "bystanders": [
   "Z"
  ],
  "family": "change-plain",
  "muts": [
   [
    "ChangeField",
    "T",
    "n",
    {
     "db_index": false
    }
   ]
  ],
  "rows": {
   "P": [
    {
     "name": "plai#0"
    }
   ],
   "T": [
    {
     "c": "0plain",
     "i": 11,
     "n": 10,
     "u": "plai#0",
     "x": 11
    }
   ],
   "Z": [
    {
     "z1": "plai#0",
     "z2": 11
    }
   ]
  },
  "spec": {
   "P": {
    "fields": {
     "name": [
      "CharField",
      {
       "max_length": 20,
       "unique": true
      }
     ]
    },
    "meta": {}
   },
   "T": {
    "fields": {
     "c": [
      "CharField",
      {
       "max_length": 20
      }
     ],
     "i": [
      "IntegerField",
      {
       "null": true
      }
     ],
     "n": [
      "PositiveIntegerField",
      {
       "db_index": true
      }
     ],
     "u": [
      "CharField",
      {
       "max_length": 10,
       "unique": true
      }
     ],
     "x": [
      "IntegerField",
      {
       "db_index": true
      }
     ]
    },
    "meta": {}
   },
   "Z": {
    "fields": {
     "z1": [
      "CharField",
      {
       "max_length": 8,
       "unique": true
      }
     ],
     "z2": [
      "IntegerField",
      {
       "db_index": true
      }
     ]
    },
    "meta": {
     "unique_together": [
      [
       "z1",
       "z2"
      ]
     ]
    }
   }
  }
 },
 "C01|sql-executes|delete-and-readd-same-column-in-one-run": {
  "bystanders": [
   "Z"
  ],
  "family": "sequence",
  "muts": [
   [
    "DeleteField",
    "A",
    "a1"
   ],
   [
    "AddField",
    "A",
    "a1",
    "IntegerField",
    {
     "initial": 7
    }
   ]
  ],
  "rows": {
   "A": [
    {
     "a1": "first",
     "a2": 1,
     "a3": "x"
    }
   ],
   "B": [
    {
     "b1": 10,
     "ref": 1
    }
   ],
   "Z": [
    {
     "z1": "z-one",
     "z2": 1
    }
   ]
  },
  "spec": "@SEQ_SPEC"
 },
 "C01|sql-executes|drop-index-after-rebuild-dropped-it": {
  "bystanders": [
   "Z"
  ],
  "family": "hinted",
  "muts": null,
  "pair": [
   "ut",
   "c-text"
  ],
  "rows": {
   "P": [
    {
     "name": "plai#0"
    }
   ],
   "T": [
    {
     "c": "0plain",
     "i": 11,
     "u": "plai#0",
     "x": 11
    }
   ],
   "Z": [
    {
     "z1": "plai#0",
     "z2": 11
    }
   ]
  },
  "spec": {
   "P": {
    "fields": {
     "name": [
      "CharField",
      {
       "max_length": 20,
       "unique": true
      }
     ]
    },
    "meta": {}
   },
   "T": {
    "fields": {
     "c": [
      "CharField",
      {
       "max_length": 20
      }
     ],
     "i": [
      "IntegerField",
      {
       "null": true
      }
     ],
     "u": [
      "CharField",
      {
       "max_length": 10,
       "unique": true
      }
     ],
     "x": [
      "IntegerField",
      {
       "db_index": true
      }
     ]
    },
    "meta": {
     "unique_together": [
      [
       "c",
       "i"
      ]
     ]
    }
   },
   "Z": {
    "fields": {
     "z1": [
      "CharField",
      {
       "max_length": 8,
       "unique": true
      }
     ],
     "z2": [
      "IntegerField",
      {
       "db_index": true
      }
     ]
    },
    "meta": {
     "unique_together": [
      [
       "z1",
       "z2"
      ]
     ]
    }
   }
  },
  "target": {
   "P": {
    "fields": {
     "name": [
      "CharField",
      {
       "max_length": 20,
       "unique": true
      }
     ]
    },
    "meta": {}
   },
   "T": {
    "fields": {
     "c": [
      "TextField",
      {}
     ],
     "i": [
      "IntegerField",
      {
       "null": true
      }
     ],
     "u": [
      "CharField",
      {
       "max_length": 10,
       "unique": true
      }
     ],
     "x": [
      "IntegerField",
      {
       "db_index": true
      }
     ]
    },
    "meta": {}
   },
   "Z": {
    "fields": {
     "z1": [
      "CharField",
      {
       "max_length": 8,
       "unique": true
      }
     ],
     "z2": [
      "IntegerField",
      {
       "db_index": true
      }
     ]
    },
    "meta": {
     "unique_together": [
      [
       "z1",
       "z2"
      ]
     ]
    }
   }
  }
 },
 "C01|sql-executes|index-and-column-name-changed-in-one-run": {
  "bystanders": [
   "Z"
  ],
  "family": "sequence",
  "muts": [
   [
    "ChangeField",
    "A",
    "a1",
    {
     "db_column": "c_a1"
    }
   ],
   [
    "RenameField",
    "A",
    "a3",
    "r",
    {}
   ],
   [
    "ChangeField",
    "A",
    "a1",
    {
     "db_index": true
    }
   ]
  ],
  "rows": {
   "A": [
    {
     "a1": "first",
     "a2": 1,
     "a3": "x"
    }
   ],
   "B": [
    {
     "b1": 10,
     "ref": 1
    }
   ],
   "Z": [
    {
     "z1": "z-one",
     "z2": 1
    }
   ]
  },
  "spec": "@SEQ_SPEC"
 },
 "C01|sql-executes|m2m-table-rename-keeps-index-names": {
  "batched": false,
  "bystanders": [
   "Z"
  ],
  "family": "sequence-unbatched",
  "muts": [
   [
    "RenameField",
    "B",
    "b1",
    "r",
    {
     "db_column": "col_r"
    }
   ],
   [
    "ChangeField",
    "A",
    "a3",
    {
     "initial": "n%",
     "null": false
    }
   ],
   [
    "AddField",
    "B",
    "lnk",
    "ManyToManyField",
    {
     "related_model": "tests.A"
    }
   ],
   [
    "AddField",
    "A",
    "lnk",
    "ForeignKey",
    {
     "null": true,
     "related_model": "tests.B"
    }
   ],
   [
    "RenameField",
    "B",
    "lnk",
    "x",
    {}
   ],
   [
    "AddField",
    "A",
    "x",
    "CharField",
    {
     "initial": "i'%",
     "max_length": 8
    }
   ],
   [
    "AddField",
    "B",
    "lnk",
    "ManyToManyField",
    {
     "related_model": "tests.A"
    }
   ],
   [
    "DeleteField",
    "A",
    "lnk"
   ]
  ],
  "rows": {
   "A": [
    {
     "a1": "first",
     "a2": 1,
     "a3": "x"
    }
   ],
   "B": [
    {
     "b1": 10,
     "ref": 1
    }
   ],
   "Z": [
    {
     "z1": "z-one",
     "z2": 1
    }
   ]
  },
  "spec": "@SEQ_SPEC"
 },
 "C01|sql-executes|type-change-across-relation-kinds": {
  "bystanders": [
   "Z"
  ],
  "family": "hinted",
  "muts": null,
  "pair": [
   "plus-int",
   "plus-m2m"
  ],
  "rows": {
   "P": [
    {
     "name": "plai#0"
    }
   ],
   "T": [
    {
     "c": "0plain",
     "i": 11,
     "n": 11,
     "u": "plai#0",
     "x": 11
    }
   ],
   "Z": [
    {
     "z1": "plai#0",
     "z2": 11
    }
   ]
  },
  "spec": {
   "P": {
    "fields": {
     "name": [
      "CharField",
      {
       "max_length": 20,
       "unique": true
      }
     ]
    },
    "meta": {}
   },
   "T": {
    "fields": {
     "c": [
      "CharField",
      {
       "max_length": 20
      }
     ],
     "i": [
      "IntegerField",
      {
       "null": true
      }
     ],
     "n": [
      "IntegerField",
      {
       "null": true
      }
     ],
     "u": [
      "CharField",
      {
       "max_length": 10,
       "unique": true
      }
     ],
     "x": [
      "IntegerField",
      {
       "db_index": true
      }
     ]
    },
    "meta": {}
   },
   "Z": {
    "fields": {
     "z1": [
      "CharField",
      {
       "max_length": 8,
       "unique": true
      }
     ],
     "z2": [
      "IntegerField",
      {
       "db_index": true
      }
     ]
    },
    "meta": {
     "unique_together": [
      [
       "z1",
       "z2"
      ]
     ]
    }
   }
  },
  "target": {
   "P": {
    "fields": {
     "name": [
      "CharField",
      {
       "max_length": 20,
       "unique": true
      }
     ]
    },
    "meta": {}
   },
   "T": {
    "fields": {
     "c": [
      "CharField",
      {
       "max_length": 20
      }
     ],
     "i": [
      "IntegerField",
      {
       "null": true
      }
     ],
     "n": [
      "ManyToManyField",
      {
       "to": "P"
      }
     ],
     "u": [
      "CharField",
      {
       "max_length": 10,
       "unique": true
      }
     ],
     "x": [
      "IntegerField",
      {
       "db_index": true
      }
     ]
    },
    "meta": {}
   },
   "Z": {
    "fields": {
     "z1": [
      "CharField",
      {
       "max_length": 8,
       "unique": true
      }
     ],
     "z2": [
      "IntegerField",
      {
       "db_index": true
      }
     ]
    },
    "meta": {
     "unique_together": [
      [
       "z1",
       "z2"
      ]
     ]
    }
   }
  }
 },
 "C01|sql-executes|type-change-with-column-name-change": {
  "bystanders": [
   "Z"
  ],
  "family": "sequence",
  "muts": [
   [
    "ChangeField",
    "A",
    "a3",
    {
     "db_column": "c_a3"
    }
   ],
   [
    "ChangeField",
    "A",
    "a3",
    {
     "field_type": "TextField",
     "null": true
    }
   ]
  ],
  "rows": {
   "A": [
    {
     "a1": "first",
     "a2": 1,
     "a3": "x"
    }
   ],
   "B": [
    {
     "b1": 10,
     "ref": 1
    }
   ],
   "Z": [
    {
     "z1": "z-one",
     "z2": 1
    }
   ]
  },
  "spec": "@SEQ_SPEC"
 },
 "C01|sql-executes|unique-together-member-deleted-in-same-run": {
  "bystanders": [
   "Z"
  ],
  "family": "sequence",
  "muts": [
   [
    "RenameField",
    "A",
    "a2",
    "r",
    {
     "db_column": "col_r"
    }
   ],
   [
    "RenameField",
    "B",
    "b1",
    "r",
    {
     "db_column": "col_r"
    }
   ],
   [
    "ChangeMeta",
    "A",
    "unique_together",
    [
     [
      "a1",
      "a3"
     ]
    ]
   ],
   [
    "DeleteField",
    "A",
    "a3"
   ],
   [
    "ChangeField",
    "A",
    "a1",
    {
     "null": true
    }
   ],
   [
    "AddField",
    "A",
    "y",
    "CharField",
    {
     "initial": "i'%",
     "max_length": 8
    }
   ]
  ],
  "rows": {
   "A": [
    {
     "a1": "first",
     "a2": 1,
     "a3": "x"
    }
   ],
   "B": [
    {
     "b1": 10,
     "ref": 1
    }
   ],
   "Z": [
    {
     "z1": "z-one",
     "z2": 1
    }
   ]
  },
  "spec": "@SEQ_SPEC"
 },
 "C02|added-column-initial|delete-and-readd-same-column-in-one-run": {
  "family": "sequence",
  "muts": [
   [
    "RenameField",
    "A",
    "a2",
    "r",
    {}
   ],
   [
    "AddField",
    "B",
    "y",
    "CharField",
    {
     "max_length": 8,
     "null": true
    }
   ],
   [
    "RenameField",
    "A",
    "r",
    "x",
    {}
   ],
   [
    "DeleteField",
    "A",
    "a1"
   ],
   [
    "AddField",
    "A",
    "a1",
    "CharField",
    {
     "max_length": 8,
     "null": true
    }
   ],
   [
    "ChangeField",
    "A",
    "a3",
    {
     "field_type": "TextField",
     "null": true
    }
   ]
  ],
  "rows": "@SEQ_ROWS",
  "spec": "@SEQ_SPEC"
 },
 "C02|added-column-initial|initial-values-bound-in-mutation-order": {
  "family": "init",
  "muts": [
   [
    "AddField",
    "T",
    "n2",
    "IntegerField",
    {
     "initial": -999
    }
   ],
   [
    "ChangeField",
    "T",
    "f2",
    {
     "initial": 222,
     "null": false
    }
   ]
  ],
  "rows": {
   "T": [
    {
     "f1": "one",
     "f2": 1,
     "f3": null,
     "keep": "keep-0"
    }
   ],
   "Z": [
    {
     "z1": "zz",
     "z2": 5
    }
   ]
  },
  "spec": "@INIT_SPEC"
 },
 "C02|column-present|delete-and-readd-same-column-in-one-run": {
  "family": "sequence",
  "muts": [
   [
    "DeleteField",
    "A",
    "a1"
   ],
   [
    "AddField",
    "A",
    "a1",
    "CharField",
    {
     "max_length": 8,
     "null": true
    }
   ]
  ],
  "rows": "@SEQ_ROWS",
  "spec": "@SEQ_SPEC"
 },
 "C02|null-replaced-by-initial|initial-values-bound-in-mutation-order": {
  "family": "init",
  "muts": [
   [
    "AddField",
    "T",
    "n2",
    "IntegerField",
    {
     "initial": -999
    }
   ],
   [
    "ChangeField",
    "T",
    "f3",
    {
     "initial": "F3 50%",
     "null": false
    }
   ]
  ],
  "rows": {
   "T": [
    {
     "f1": "one",
     "f2": 1,
     "f3": null,
     "keep": "keep-0"
    }
   ],
   "Z": [
    {
     "z1": "zz",
     "z2": 5
    }
   ]
  },
  "spec": "@INIT_SPEC"
 },
 "C02|null-replaced-by-initial|optimizer-merges-away-null-roundtrip": {
  "family": "sequence",
  "muts": [
   [
    "ChangeField",
    "A",
    "a2",
    {
     "initial": 5,
     "null": false
    }
   ],
   [
    "ChangeField",
    "A",
    "a2",
    {
     "null": true
    }
   ]
  ],
  "rows": "@SEQ_ROWS",
  "spec": "@SEQ_SPEC"
 },
 "C03|batched-accepted|delete-and-readd-same-column-in-one-run": {
  "evolver_parts": [
   1,
   2
  ],
  "muts": [
   [
    "DeleteField",
    "B",
    "b1"
   ],
   [
    "AddField",
    "B",
    "b1",
    "IntegerField",
    {
     "initial": 7
    }
   ]
  ],
  "rows": "@SEQ_ROWS",
  "spec": "@SEQ_SPEC"
 },
 "C03|batched-accepted|drop-index-after-rebuild-dropped-it": {
  "evolver": true,
  "evolver_parts": [
   2
  ],
  "muts": [
   [
    "ChangeMeta",
    "A",
    "unique_together",
    [
     [
      "a1",
      "a3"
     ]
    ]
   ],
   [
    "SQLMutation",
    "barrier",
    [
     "SELECT 1;"
    ],
    "sim"
   ],
   [
    "ChangeMeta",
    "A",
    "unique_together",
    []
   ],
   [
    "DeleteField",
    "A",
    "a3"
   ]
  ],
  "rows": "@SEQ_ROWS",
  "spec": "@SEQ_SPEC"
 },
 "C03|batched-accepted|index-and-column-name-changed-in-one-run": {
  "evolver_parts": [
   1,
   2
  ],
  "muts": [
   [
    "ChangeField",
    "A",
    "a1",
    {
     "db_index": true
    }
   ],
   [
    "ChangeField",
    "A",
    "a1",
    {
     "db_column": "c_a1"
    }
   ],
   [
    "ChangeField",
    "B",
    "b1",
    {
     "db_column": "c_b1"
    }
   ],
   [
    "AddField",
    "B",
    "y",
    "CharField",
    {
     "max_length": 8,
     "null": true
    }
   ]
  ],
  "rows": "@SEQ_ROWS",
  "spec": "@SEQ_SPEC"
 },
 "C03|batched-accepted|optimizer-confuses-reused-field-names": {
  "evolver_parts": [
   1,
   2
  ],
  "muts": [
   [
    "RenameField",
    "A",
    "a2",
    "r",
    {}
   ],
   [
    "DeleteField",
    "A",
    "a1"
   ],
   [
    "RenameField",
    "A",
    "r",
    "a1",
    {}
   ]
  ],
  "rows": "@SEQ_ROWS",
  "spec": "@SEQ_SPEC"
 },
 "C03|batched-accepted|optimizer-field-ids-ignore-model-renames": {
  "evolver_parts": [
   1,
   2
  ],
  "muts": [
   [
    "RenameModel",
    "A",
    "C",
    "tests_c"
   ],
   [
    "DeleteField",
    "C",
    "a1"
   ],
   [
    "RenameModel",
    "C",
    "A",
    "tests_a"
   ]
  ],
  "rows": "@SEQ_ROWS",
  "spec": "@SEQ_SPEC"
 },
 "C03|batched-accepted|optimizer-noop-field-still-referenced": {
  "evolver_parts": [
   1,
   2
  ],
  "muts": [
   [
    "AddField",
    "A",
    "x",
    "IntegerField",
    {
     "initial": 7
    }
   ],
   [
    "ChangeMeta",
    "A",
    "unique_together",
    [
     [
      "a1",
      "x"
     ]
    ]
   ],
   [
    "DeleteField",
    "A",
    "x"
   ]
  ],
  "rows": "@SEQ_ROWS",
  "spec": "@SEQ_SPEC"
 },
 "C03|batched-accepted|optimizer-regroups-by-model-name": {
  "evolver_parts": [
   1,
   2
  ],
  "muts": [
   [
    "DeleteModel",
    "B"
   ],
   [
    "DeleteModel",
    "A"
   ]
  ],
  "rows": "@SEQ_ROWS",
  "spec": "@SEQ_SPEC"
 },
 "C03|batched-accepted|optimizer-retargets-added-relation-before-rename": {
  "evolver_parts": [
   1,
   2
  ],
  "muts": [
   [
    "AddField",
    "A",
    "lnk",
    "ManyToManyField",
    {
     "related_model": "tests.B"
    }
   ],
   [
    "RenameModel",
    "B",
    "Aa",
    "tests_b"
   ]
  ],
  "rows": "@SEQ_ROWS",
  "spec": "@SEQ_SPEC"
 },
 "C03|batched-accepted|rename-model-not-tracked-in-database-state": {
  "evolver_parts": [
   1,
   2
  ],
  "muts": [
   [
    "RenameModel",
    "A",
    "C",
    "tests_c"
   ],
   [
    "ChangeField",
    "C",
    "a2",
    {
     "unique": true
    }
   ]
  ],
  "rows": "@SEQ_ROWS",
  "spec": "@SEQ_SPEC"
 },
 "C03|batched-accepted|type-change-with-column-name-change": {
  "evolver_parts": [
   1,
   2
  ],
  "muts": [
   [
    "ChangeField",
    "A",
    "a3",
    {
     "field_type": "TextField",
     "null": true
    }
   ],
   [
    "ChangeField",
    "A",
    "a3",
    {
     "db_column": "c_a3"
    }
   ]
  ],
  "rows": "@SEQ_ROWS",
  "spec": "@SEQ_SPEC"
 },
 "C03|batched-accepted|unique-together-member-deleted-in-same-run": {
  "evolver_parts": [
   1,
   2
  ],
  "muts": [
   [
    "ChangeMeta",
    "A",
    "unique_together",
    [
     [
      "a1",
      "a3"
     ]
    ]
   ],
   [
    "DeleteField",
    "A",
    "a1"
   ],
   [
    "DeleteField",
    "A",
    "a3"
   ]
  ],
  "rows": "@SEQ_ROWS",
  "spec": "@SEQ_SPEC"
 },
 "C03|batched-same-rows|delete-and-readd-same-column-in-one-run": {
  "evolver_parts": [
   1,
   2
  ],
  "muts": [
   [
    "DeleteField",
    "A",
    "a3"
   ],
   [
    "AddField",
    "A",
    "a3",
    "CharField",
    {
     "max_length": 8,
     "null": true
    }
   ]
  ],
  "rows": "@SEQ_ROWS",
  "spec": "@SEQ_SPEC"
 },
 "C03|batched-same-rows|initial-values-bound-in-mutation-order": {
  "evolver_parts": [
   1,
   2
  ],
  "muts": [
   [
    "AddField",
    "A",
    "x",
    "IntegerField",
    {
     "initial": 7
    }
   ],
   [
    "ChangeField",
    "A",
    "a2",
    {
     "initial": 5,
     "null": false
    }
   ]
  ],
  "rows": "@SEQ_ROWS",
  "spec": "@SEQ_SPEC"
 },
 "C03|batched-same-rows|optimizer-collapses-column-name-chain": {
  "evolver": false,
  "evolver_parts": [
   2
  ],
  "muts": [
   [
    "RenameField",
    "A",
    "a2",
    "r",
    {}
   ],
   [
    "ChangeField",
    "A",
    "r",
    {
     "initial": 5,
     "null": false
    }
   ],
   [
    "RenameField",
    "A",
    "r",
    "x",
    {}
   ],
   [
    "ChangeField",
    "A",
    "a3",
    {
     "initial": "n%",
     "null": false
    }
   ]
  ],
  "rows": "@SEQ_ROWS",
  "spec": "@SEQ_SPEC"
 },
 "C03|batched-same-rows|optimizer-confuses-reused-field-names": {
  "evolver_parts": [
   1,
   2
  ],
  "muts": [
   [
    "RenameField",
    "B",
    "ref",
    "r",
    {}
   ],
   [
    "DeleteField",
    "B",
    "b1"
   ],
   [
    "RenameField",
    "B",
    "r",
    "b1",
    {}
   ]
  ],
  "rows": "@SEQ_ROWS",
  "spec": "@SEQ_SPEC"
 },
 "C03|batched-same-rows|optimizer-drops-rename-back-to-existing-name": {
  "evolver_parts": [
   1,
   2
  ],
  "muts": [
   [
    "RenameModel",
    "A",
    "C",
    "tests_c"
   ],
   [
    "SQLMutation",
    "barrier",
    [
     "SELECT 1;"
    ],
    "sim"
   ],
   [
    "RenameModel",
    "C",
    "A",
    "tests_a"
   ]
  ],
  "rows": "@SEQ_ROWS",
  "spec": "@SEQ_SPEC"
 },
 "C03|batched-same-rows|optimizer-merges-away-null-roundtrip": {
  "evolver_parts": [
   1,
   2
  ],
  "muts": [
   [
    "RenameModel",
    "A",
    "C",
    "tests_c"
   ],
   [
    "ChangeField",
    "C",
    "a2",
    {
     "initial": 5,
     "null": false
    }
   ],
   [
    "AddField",
    "C",
    "x",
    "CharField",
    {
     "max_length": 8,
     "null": true
    }
   ],
   [
    "ChangeField",
    "C",
    "a2",
    {
     "null": true
    }
   ],
   [
    "AddField",
    "B",
    "y",
    "IntegerField",
    {
     "initial": 7
    }
   ],
   [
    "DeleteField",
    "B",
    "ref"
   ]
  ],
  "rows": "@SEQ_ROWS",
  "spec": "@SEQ_SPEC"
 },
 "C03|batched-same-schema|constraints-changed-twice-in-one-run": {
  "evolver_parts": [
   1,
   2
  ],
  "muts": [
   [
    "ChangeMeta",
    "B",
    "constraints",
    [
     {
      "fields": [
       "b1"
      ],
      "name": "uc_b",
      "type": {
       "__cls__": "UniqueConstraint"
      }
     }
    ]
   ],
   [
    "ChangeMeta",
    "B",
    "constraints",
    []
   ],
   [
    "DeleteField",
    "A",
    "a2"
   ],
   [
    "ChangeField",
    "A",
    "a1",
    {
     "db_index": true
    }
   ],
   [
    "ChangeField",
    "A",
    "a1",
    {
     "db_index": false
    }
   ]
  ],
  "rows": "@SEQ_ROWS",
  "spec": "@SEQ_SPEC"
 },
 "C03|batched-same-schema|db-index-change-after-rebuild-op-ignored": {
  "evolver_parts": [
   1,
   2
  ],
  "muts": [
   [
    "DeleteField",
    "A",
    "a2"
   ],
   [
    "ChangeField",
    "A",
    "a1",
    {
     "db_index": true
    }
   ]
  ],
  "rows": "@SEQ_ROWS",
  "spec": "@SEQ_SPEC"
 },
 "C03|batched-same-schema|delete-and-readd-same-column-in-one-run": {
  "evolver_parts": [
   1,
   2
  ],
  "muts": [
   [
    "DeleteField",
    "A",
    "a3"
   ],
   [
    "AddField",
    "A",
    "a3",
    "CharField",
    {
     "max_length": 8,
     "null": true
    }
   ]
  ],
  "rows": "@SEQ_ROWS",
  "spec": "@SEQ_SPEC"
 },
 "C03|batched-same-schema|index-and-column-name-changed-in-one-run": {
  "evolver_parts": [
   1,
   2
  ],
  "muts": [
   [
    "ChangeField",
    "A",
    "a1",
    {
     "db_index": true
    }
   ],
   [
    "ChangeField",
    "A",
    "a1",
    {
     "db_column": "c_a1"
    }
   ]
  ],
  "rows": "@SEQ_ROWS",
  "spec": "@SEQ_SPEC"
 },
 "C03|batched-same-schema|index-on-renamed-column-not-dropped": {
  "evolver_parts": [
   1,
   2
  ],
  "muts": [
   [
    "RenameField",
    "A",
    "a3",
    "r",
    {}
   ],
   [
    "ChangeMeta",
    "A",
    "unique_together",
    [
     [
      "a1",
      "r"
     ]
    ]
   ],
   [
    "ChangeField",
    "A",
    "r",
    {
     "max_length": 15
    }
   ]
  ],
  "rows": "@SEQ_ROWS",
  "spec": "@SEQ_SPEC"
 },
 "C03|batched-same-schema|optimizer-collapses-column-name-chain": {
  "evolver_parts": [
   1,
   2
  ],
  "muts": [
   [
    "AddField",
    "B",
    "lnk",
    "ManyToManyField",
    {
     "related_model": "tests.A"
    }
   ],
   [
    "RenameField",
    "A",
    "a1",
    "r",
    {
     "db_column": "col_r"
    }
   ],
   [
    "RenameField",
    "A",
    "r",
    "x",
    {}
   ],
   [
    "ChangeField",
    "B",
    "b1",
    {
     "null": true
    }
   ]
  ],
  "rows": "@SEQ_ROWS",
  "spec": "@SEQ_SPEC"
 },
 "C03|batched-same-schema|optimizer-confuses-reused-field-names": {
  "evolver": true,
  "evolver_parts": [
   2
  ],
  "muts": [
   [
    "AddField",
    "A",
    "x",
    "IntegerField",
    {
     "initial": 7
    }
   ],
   [
    "DeleteField",
    "A",
    "a3"
   ],
   [
    "AddField",
    "A",
    "a3",
    "CharField",
    {
     "initial": "i'%",
     "max_length": 8
    }
   ],
   [
    "DeleteField",
    "A",
    "a3"
   ]
  ],
  "rows": "@SEQ_ROWS",
  "spec": "@SEQ_SPEC"
 },
 "C03|batched-same-schema|optimizer-drops-rename-back-to-existing-name": {
  "evolver_parts": [
   1,
   2
  ],
  "muts": [
   [
    "RenameModel",
    "A",
    "C",
    "tests_c"
   ],
   [
    "SQLMutation",
    "barrier",
    [
     "SELECT 1;"
    ],
    "sim"
   ],
   [
    "RenameModel",
    "C",
    "A",
    "tests_a"
   ]
  ],
  "rows": "@SEQ_ROWS",
  "spec": "@SEQ_SPEC"
 },
 "C03|batched-same-schema|optimizer-merges-changefield-across-type-change": {
  "evolver_parts": [
   1,
   2
  ],
  "muts": [
   [
    "ChangeField",
    "A",
    "a2",
    {
     "unique": true
    }
   ],
   [
    "ChangeField",
    "A",
    "a2",
    {
     "field_type": "CharField",
     "max_length": 12,
     "null": true
    }
   ]
  ],
  "rows": "@SEQ_ROWS",
  "spec": "@SEQ_SPEC"
 },
 "C03|batched-same-schema|rebuild-loses-table-level-objects": {
  "evolver_parts": [
   1,
   2
  ],
  "muts": [
   [
    "ChangeMeta",
    "A",
    "index_together",
    [
     [
      "a1",
      "a2"
     ]
    ]
   ],
   [
    "DeleteField",
    "A",
    "a3"
   ]
  ],
  "rows": "@SEQ_ROWS",
  "spec": "@SEQ_SPEC"
 },
 "C03|batched-same-schema|rename-model-keeps-m2m-column-names": {
  "evolver_parts": [
   1,
   2
  ],
  "muts": [
   [
    "AddField",
    "B",
    "lnk",
    "ManyToManyField",
    {
     "related_model": "tests.A"
    }
   ],
   [
    "RenameModel",
    "A",
    "C",
    "tests_c"
   ]
  ],
  "rows": "@SEQ_ROWS",
  "spec": "@SEQ_SPEC"
 },
 "C03|batched-same-schema|rename-model-not-tracked-in-database-state": {
  "evolver_parts": [
   1,
   2
  ],
  "muts": [
   [
    "ChangeMeta",
    "A",
    "unique_together",
    [
     [
      "a1",
      "a3"
     ]
    ]
   ],
   [
    "RenameModel",
    "A",
    "C",
    "tests_c"
   ],
   [
    "ChangeMeta",
    "C",
    "unique_together",
    []
   ]
  ],
  "rows": "@SEQ_ROWS",
  "spec": "@SEQ_SPEC"
 },
 "C03|batched-same-schema|unique-together-member-deleted-in-same-run": {
  "evolver_parts": [
   1,
   2
  ],
  "muts": [
   [
    "ChangeMeta",
    "A",
    "unique_together",
    [
     [
      "a1",
      "a3"
     ]
    ]
   ],
   [
    "DeleteField",
    "A",
    "a1"
   ]
  ],
  "rows": "@SEQ_ROWS",
  "spec": "@SEQ_SPEC"
 },
 "C03|batched-same-signature|optimizer-collapses-column-name-chain": {
  "evolver_parts": [
   1,
   2
  ],
  "muts": [
   [
    "AddField",
    "B",
    "lnk",
    "ManyToManyField",
    {
     "related_model": "tests.A"
    }
   ],
   [
    "RenameField",
    "A",
    "a1",
    "r",
    {
     "db_column": "col_r"
    }
   ],
   [
    "RenameField",
    "A",
    "r",
    "x",
    {}
   ],
   [
    "ChangeField",
    "B",
    "b1",
    {
     "null": true
    }
   ]
  ],
  "rows": "@SEQ_ROWS",
  "spec": "@SEQ_SPEC"
 },
 "C03|batched-same-signature|optimizer-confuses-reused-field-names": {
  "evolver_parts": [
   1,
   2
  ],
  "muts": [
   [
    "RenameField",
    "B",
    "ref",
    "r",
    {}
   ],
   [
    "DeleteField",
    "B",
    "b1"
   ],
   [
    "RenameField",
    "B",
    "r",
    "b1",
    {}
   ]
  ],
  "rows": "@SEQ_ROWS",
  "spec": "@SEQ_SPEC"
 },
 "C03|batched-same-signature|optimizer-drops-rename-back-to-existing-name": {
  "evolver_parts": [
   1,
   2
  ],
  "muts": [
   [
    "RenameModel",
    "A",
    "C",
    "tests_c"
   ],
   [
    "SQLMutation",
    "barrier",
    [
     "SELECT 1;"
    ],
    "sim"
   ],
   [
    "RenameModel",
    "C",
    "A",
    "tests_a"
   ]
  ],
  "rows": "@SEQ_ROWS",
  "spec": "@SEQ_SPEC"
 },
 "C03|batched-same-signature|optimizer-merges-changefield-across-type-change": {
  "evolver_parts": [
   1,
   2
  ],
  "muts": [
   [
    "ChangeField",
    "A",
    "a2",
    {
     "unique": true
    }
   ],
   [
    "ChangeField",
    "A",
    "a2",
    {
     "field_type": "CharField",
     "max_length": 12,
     "null": true
    }
   ]
  ],
  "rows": "@SEQ_ROWS",
  "spec": "@SEQ_SPEC"
 },
 "C03|definitions-unaltered|optimizer-rewrites-mutations-in-place": {
  "evolver_parts": [
   1,
   2
  ],
  "muts": [
   [
    "RenameModel",
    "B",
    "Aa",
    "tests_aa"
   ],
   [
    "DeleteModel",
    "Aa"
   ]
  ],
  "rows": "@SEQ_ROWS",
  "spec": "@SEQ_SPEC"
 },
 "C03|evolver-accepted|delete-and-readd-same-column-in-one-run": {
  "evolver_parts": [
   1,
   2
  ],
  "muts": [
   [
    "DeleteField",
    "B",
    "b1"
   ],
   [
    "AddField",
    "B",
    "b1",
    "IntegerField",
    {
     "initial": 7
    }
   ]
  ],
  "rows": "@SEQ_ROWS",
  "spec": "@SEQ_SPEC"
 },
 "C03|evolver-accepted|drop-index-after-rebuild-dropped-it": {
  "evolver": true,
  "evolver_parts": [
   2
  ],
  "muts": [
   [
    "ChangeMeta",
    "A",
    "unique_together",
    [
     [
      "a1",
      "a3"
     ]
    ]
   ],
   [
    "SQLMutation",
    "barrier",
    [
     "SELECT 1;"
    ],
    "sim"
   ],
   [
    "ChangeMeta",
    "A",
    "unique_together",
    []
   ],
   [
    "DeleteField",
    "A",
    "a3"
   ]
  ],
  "rows": "@SEQ_ROWS",
  "spec": "@SEQ_SPEC"
 },
 "C03|evolver-accepted|index-and-column-name-changed-in-one-run": {
  "evolver_parts": [
   1,
   2
  ],
  "muts": [
   [
    "ChangeField",
    "A",
    "a1",
    {
     "db_index": true
    }
   ],
   [
    "ChangeField",
    "A",
    "a1",
    {
     "db_column": "c_a1"
    }
   ],
   [
    "ChangeField",
    "B",
    "b1",
    {
     "db_column": "c_b1"
    }
   ],
   [
    "AddField",
    "B",
    "y",
    "CharField",
    {
     "max_length": 8,
     "null": true
    }
   ]
  ],
  "rows": "@SEQ_ROWS",
  "spec": "@SEQ_SPEC"
 },
 "C03|evolver-accepted|optimizer-confuses-reused-field-names": {
  "evolver_parts": [
   1,
   2
  ],
  "muts": [
   [
    "RenameField",
    "A",
    "a2",
    "r",
    {}
   ],
   [
    "DeleteField",
    "A",
    "a1"
   ],
   [
    "RenameField",
    "A",
    "r",
    "a1",
    {}
   ]
  ],
  "rows": "@SEQ_ROWS",
  "spec": "@SEQ_SPEC"
 },
 "C03|evolver-accepted|optimizer-field-ids-ignore-model-renames": {
  "evolver_parts": [
   1,
   2
  ],
  "muts": [
   [
    "RenameModel",
    "A",
    "C",
    "tests_c"
   ],
   [
    "DeleteField",
    "C",
    "a1"
   ],
   [
    "RenameModel",
    "C",
    "A",
    "tests_a"
   ]
  ],
  "rows": "@SEQ_ROWS",
  "spec": "@SEQ_SPEC"
 },
 "C03|evolver-accepted|optimizer-noop-field-still-referenced": {
  "evolver_parts": [
   1,
   2
  ],
  "muts": [
   [
    "AddField",
    "A",
    "x",
    "IntegerField",
    {
     "initial": 7
    }
   ],
   [
    "ChangeMeta",
    "A",
    "unique_together",
    [
     [
      "a1",
      "x"
     ]
    ]
   ],
   [
    "DeleteField",
    "A",
    "x"
   ]
  ],
  "rows": "@SEQ_ROWS",
  "spec": "@SEQ_SPEC"
 },
 "C03|evolver-accepted|optimizer-regroups-by-model-name": {
  "evolver_parts": [
   1,
   2
  ],
  "muts": [
   [
    "DeleteModel",
    "B"
   ],
   [
    "DeleteModel",
    "A"
   ]
  ],
  "rows": "@SEQ_ROWS",
  "spec": "@SEQ_SPEC"
 },
 "C03|evolver-accepted|optimizer-retargets-added-relation-before-rename": {
  "evolver_parts": [
   1,
   2
  ],
  "muts": [
   [
    "AddField",
    "A",
    "lnk",
    "ManyToManyField",
    {
     "related_model": "tests.B"
    }
   ],
   [
    "RenameModel",
    "B",
    "Aa",
    "tests_b"
   ]
  ],
  "rows": "@SEQ_ROWS",
  "spec": "@SEQ_SPEC"
 },
 "C03|evolver-accepted|optimizer-rewrites-mutations-in-place": {
  "evolver_parts": [
   1,
   2
  ],
  "muts": [
   [
    "RenameModel",
    "B",
    "Aa",
    "tests_aa"
   ],
   [
    "DeleteModel",
    "Aa"
   ]
  ],
  "rows": "@SEQ_ROWS",
  "spec": "@SEQ_SPEC"
 },
 "C03|evolver-accepted|rename-model-not-tracked-in-database-state": {
  "evolver_parts": [
   1,
   2
  ],
  "muts": [
   [
    "RenameModel",
    "A",
    "C",
    "tests_c"
   ],
   [
    "ChangeField",
    "C",
    "a2",
    {
     "unique": true
    }
   ]
  ],
  "rows": "@SEQ_ROWS",
  "spec": "@SEQ_SPEC"
 },
 "C03|evolver-accepted|type-change-with-column-name-change": {
  "evolver_parts": [
   1,
   2
  ],
  "muts": [
   [
    "ChangeField",
    "A",
    "a3",
    {
     "field_type": "TextField",
     "null": true
    }
   ],
   [
    "ChangeField",
    "A",
    "a3",
    {
     "db_column": "c_a3"
    }
   ]
  ],
  "rows": "@SEQ_ROWS",
  "spec": "@SEQ_SPEC"
 },
 "C03|evolver-accepted|unique-together-member-deleted-in-same-run": {
  "evolver_parts": [
   1,
   2
  ],
  "muts": [
   [
    "ChangeMeta",
    "A",
    "unique_together",
    [
     [
      "a1",
      "a3"
     ]
    ]
   ],
   [
    "DeleteField",
    "A",
    "a1"
   ],
   [
    "DeleteField",
    "A",
    "a3"
   ]
  ],
  "rows": "@SEQ_ROWS",
  "spec": "@SEQ_SPEC"
 },
 "C03|evolver-same-rows|delete-and-readd-same-column-in-one-run": {
  "evolver_parts": [
   1,
   2
  ],
  "muts": [
   [
    "DeleteField",
    "A",
    "a3"
   ],
   [
    "AddField",
    "A",
    "a3",
    "CharField",
    {
     "max_length": 8,
     "null": true
    }
   ]
  ],
  "rows": "@SEQ_ROWS",
  "spec": "@SEQ_SPEC"
 },
 "C03|evolver-same-rows|initial-values-bound-in-mutation-order": {
  "evolver_parts": [
   1,
   2
  ],
  "muts": [
   [
    "AddField",
    "A",
    "x",
    "IntegerField",
    {
     "initial": 7
    }
   ],
   [
    "ChangeField",
    "A",
    "a2",
    {
     "initial": 5,
     "null": false
    }
   ]
  ],
  "rows": "@SEQ_ROWS",
  "spec": "@SEQ_SPEC"
 },
 "C03|evolver-same-rows|optimizer-collapses-column-name-chain": {
  "evolver_parts": [
   1,
   2
  ],
  "muts": [
   [
    "AddField",
    "A",
    "y",
    "CharField",
    {
     "initial": "i'%",
     "max_length": 8
    }
   ],
   [
    "ChangeMeta",
    "B",
    "indexes",
    [
     {
      "fields": [
       "b1"
      ],
      "name": "ix_b"
     }
    ]
   ],
   [
    "ChangeField",
    "A",
    "a1",
    {
     "null": true
    }
   ],
   [
    "AddField",
    "B",
    "x",
    "CharField",
    {
     "initial": "i'%",
     "max_length": 8
    }
   ],
   [
    "ChangeField",
    "B",
    "x",
    {
     "db_index": true
    }
   ],
   [
    "RenameField",
    "A",
    "a1",
    "r",
    {}
   ],
   [
    "ChangeField",
    "A",
    "a3",
    {
     "initial": "n%",
     "null": false
    }
   ],
   [
    "ChangeField",
    "A",
    "r",
    {
     "db_column": "c_r"
    }
   ]
  ],
  "rows": "@SEQ_ROWS",
  "spec": "@SEQ_SPEC"
 },
 "C03|evolver-same-rows|optimizer-confuses-reused-field-names": {
  "evolver": true,
  "evolver_parts": [
   2
  ],
  "muts": [
   [
    "AddField",
    "A",
    "x",
    "IntegerField",
    {
     "initial": 7
    }
   ],
   [
    "DeleteField",
    "A",
    "a3"
   ],
   [
    "AddField",
    "A",
    "a3",
    "CharField",
    {
     "initial": "i'%",
     "max_length": 8
    }
   ],
   [
    "DeleteField",
    "A",
    "a3"
   ]
  ],
  "rows": "@SEQ_ROWS",
  "spec": "@SEQ_SPEC"
 },
 "C03|evolver-same-rows|optimizer-drops-rename-back-to-existing-name": {
  "evolver_parts": [
   1,
   2
  ],
  "muts": [
   [
    "RenameModel",
    "A",
    "C",
    "tests_c"
   ],
   [
    "SQLMutation",
    "barrier",
    [
     "SELECT 1;"
    ],
    "sim"
   ],
   [
    "RenameModel",
    "C",
    "A",
    "tests_a"
   ]
  ],
  "rows": "@SEQ_ROWS",
  "spec": "@SEQ_SPEC"
 },
 "C03|evolver-same-rows|optimizer-merges-away-null-roundtrip": {
  "evolver_parts": [
   1,
   2
  ],
  "muts": [
   [
    "RenameModel",
    "A",
    "C",
    "tests_c"
   ],
   [
    "ChangeField",
    "C",
    "a2",
    {
     "initial": 5,
     "null": false
    }
   ],
   [
    "AddField",
    "C",
    "x",
    "CharField",
    {
     "max_length": 8,
     "null": true
    }
   ],
   [
    "ChangeField",
    "C",
    "a2",
    {
     "null": true
    }
   ],
   [
    "AddField",
    "B",
    "y",
    "IntegerField",
    {
     "initial": 7
    }
   ],
   [
    "DeleteField",
    "B",
    "ref"
   ]
  ],
  "rows": "@SEQ_ROWS",
  "spec": "@SEQ_SPEC"
 },
 "C03|evolver-same-schema|constraints-changed-twice-in-one-run": {
  "evolver_parts": [
   1,
   2
  ],
  "muts": [
   [
    "ChangeMeta",
    "B",
    "constraints",
    [
     {
      "fields": [
       "b1"
      ],
      "name": "uc_b",
      "type": {
       "__cls__": "UniqueConstraint"
      }
     }
    ]
   ],
   [
    "ChangeMeta",
    "B",
    "constraints",
    []
   ],
   [
    "DeleteField",
    "A",
    "a2"
   ],
   [
    "ChangeField",
    "A",
    "a1",
    {
     "db_index": true
    }
   ],
   [
    "ChangeField",
    "A",
    "a1",
    {
     "db_index": false
    }
   ]
  ],
  "rows": "@SEQ_ROWS",
  "spec": "@SEQ_SPEC"
 },
 "C03|evolver-same-schema|db-index-change-after-rebuild-op-ignored": {
  "evolver_parts": [
   1,
   2
  ],
  "muts": [
   [
    "DeleteField",
    "A",
    "a2"
   ],
   [
    "ChangeField",
    "A",
    "a1",
    {
     "db_index": true
    }
   ]
  ],
  "rows": "@SEQ_ROWS",
  "spec": "@SEQ_SPEC"
 },
 "C03|evolver-same-schema|delete-and-readd-same-column-in-one-run": {
  "evolver_parts": [
   1,
   2
  ],
  "muts": [
   [
    "DeleteField",
    "A",
    "a3"
   ],
   [
    "AddField",
    "A",
    "a3",
    "CharField",
    {
     "max_length": 8,
     "null": true
    }
   ]
  ],
  "rows": "@SEQ_ROWS",
  "spec": "@SEQ_SPEC"
 },
 "C03|evolver-same-schema|index-and-column-name-changed-in-one-run": {
  "evolver_parts": [
   1,
   2
  ],
  "muts": [
   [
    "ChangeField",
    "A",
    "a1",
    {
     "db_index": true
    }
   ],
   [
    "ChangeField",
    "A",
    "a1",
    {
     "db_column": "c_a1"
    }
   ]
  ],
  "rows": "@SEQ_ROWS",
  "spec": "@SEQ_SPEC"
 },
 "C03|evolver-same-schema|index-on-renamed-column-not-dropped": {
  "evolver_parts": [
   1,
   2
  ],
  "muts": [
   [
    "RenameField",
    "A",
    "a3",
    "r",
    {}
   ],
   [
    "ChangeMeta",
    "A",
    "unique_together",
    [
     [
      "a1",
      "r"
     ]
    ]
   ],
   [
    "ChangeField",
    "A",
    "r",
    {
     "max_length": 15
    }
   ]
  ],
  "rows": "@SEQ_ROWS",
  "spec": "@SEQ_SPEC"
 },
 "C03|evolver-same-schema|optimizer-collapses-column-name-chain": {
  "evolver_parts": [
   1,
   2
  ],
  "muts": [
   [
    "RenameField",
    "B",
    "b1",
    "r",
    {}
   ],
   [
    "ChangeMeta",
    "B",
    "constraints",
    [
     {
      "fields": [
       "r"
      ],
      "name": "uc_b",
      "type": {
       "__cls__": "UniqueConstraint"
      }
     }
    ]
   ],
   [
    "AddField",
    "A",
    "lnk",
    "ManyToManyField",
    {
     "related_model": "tests.B"
    }
   ],
   [
    "DeleteField",
    "A",
    "lnk"
   ],
   [
    "ChangeField",
    "B",
    "r",
    {
     "db_column": "c_r"
    }
   ],
   [
    "DeleteField",
    "A",
    "a1"
   ],
   [
    "AddField",
    "B",
    "y",
    "CharField",
    {
     "max_length": 8,
     "null": true
    }
   ]
  ],
  "rows": "@SEQ_ROWS",
  "spec": "@SEQ_SPEC"
 },
 "C03|evolver-same-schema|optimizer-confuses-reused-field-names": {
  "evolver": true,
  "evolver_parts": [
   2
  ],
  "muts": [
   [
    "AddField",
    "A",
    "x",
    "IntegerField",
    {
     "initial": 7
    }
   ],
   [
    "DeleteField",
    "A",
    "a3"
   ],
   [
    "AddField",
    "A",
    "a3",
    "CharField",
    {
     "initial": "i'%",
     "max_length": 8
    }
   ],
   [
    "DeleteField",
    "A",
    "a3"
   ]
  ],
  "rows": "@SEQ_ROWS",
  "spec": "@SEQ_SPEC"
 },
 "C03|evolver-same-schema|optimizer-drops-rename-back-to-existing-name": {
  "evolver_parts": [
   1,
   2
  ],
  "muts": [
   [
    "RenameModel",
    "A",
    "C",
    "tests_c"
   ],
   [
    "SQLMutation",
    "barrier",
    [
     "SELECT 1;"
    ],
    "sim"
   ],
   [
    "RenameModel",
    "C",
    "A",
    "tests_a"
   ]
  ],
  "rows": "@SEQ_ROWS",
  "spec": "@SEQ_SPEC"
 },
 "C03|evolver-same-schema|optimizer-merges-changefield-across-type-change": {
  "evolver_parts": [
   1,
   2
  ],
  "muts": [
   [
    "ChangeField",
    "A",
    "a2",
    {
     "unique": true
    }
   ],
   [
    "ChangeField",
    "A",
    "a2",
    {
     "field_type": "CharField",
     "max_length": 12,
     "null": true
    }
   ]
  ],
  "rows": "@SEQ_ROWS",
  "spec": "@SEQ_SPEC"
 },
 "C03|evolver-same-schema|rebuild-loses-table-level-objects": {
  "evolver_parts": [
   1,
   2
  ],
  "muts": [
   [
    "ChangeMeta",
    "A",
    "index_together",
    [
     [
      "a1",
      "a2"
     ]
    ]
   ],
   [
    "DeleteField",
    "A",
    "a3"
   ]
  ],
  "rows": "@SEQ_ROWS",
  "spec": "@SEQ_SPEC"
 },
 "C03|evolver-same-schema|rename-model-keeps-m2m-column-names": {
  "evolver_parts": [
   1,
   2
  ],
  "muts": [
   [
    "AddField",
    "B",
    "lnk",
    "ManyToManyField",
    {
     "related_model": "tests.A"
    }
   ],
   [
    "RenameModel",
    "A",
    "C",
    "tests_c"
   ]
  ],
  "rows": "@SEQ_ROWS",
  "spec": "@SEQ_SPEC"
 },
 "C03|evolver-same-schema|rename-model-not-tracked-in-database-state": {
  "evolver_parts": [
   1,
   2
  ],
  "muts": [
   [
    "ChangeMeta",
    "A",
    "unique_together",
    [
     [
      "a1",
      "a3"
     ]
    ]
   ],
   [
    "RenameModel",
    "A",
    "C",
    "tests_c"
   ],
   [
    "ChangeMeta",
    "C",
    "unique_together",
    []
   ]
  ],
  "rows": "@SEQ_ROWS",
  "spec": "@SEQ_SPEC"
 },
 "C03|evolver-same-schema|unique-together-member-deleted-in-same-run": {
  "evolver_parts": [
   1,
   2
  ],
  "muts": [
   [
    "ChangeMeta",
    "A",
    "unique_together",
    [
     [
      "a1",
      "a3"
     ]
    ]
   ],
   [
    "DeleteField",
    "A",
    "a1"
   ]
  ],
  "rows": "@SEQ_ROWS",
  "spec": "@SEQ_SPEC"
 },
 "C03|evolver-same-signature|optimizer-collapses-column-name-chain": {
  "evolver_parts": [
   1,
   2
  ],
  "muts": [
   [
    "ChangeField",
    "A",
    "a1",
    {
     "null": true
    }
   ],
   [
    "RenameField",
    "A",
    "a1",
    "r",
    {
     "db_column": "col_r"
    }
   ],
   [
    "ChangeField",
    "A",
    "a2",
    {
     "unique": true
    }
   ],
   [
    "ChangeField",
    "B",
    "b1",
    {
     "db_index": true
    }
   ],
   [
    "ChangeField",
    "A",
    "r",
    {
     "db_column": "c_r"
    }
   ],
   [
    "AddField",
    "A",
    "x",
    "CharField",
    {
     "initial": "i'%",
     "max_length": 8
    }
   ],
   [
    "ChangeField",
    "A",
    "a3",
    {
     "initial": "n%",
     "null": false
    }
   ],
   [
    "DeleteField",
    "A",
    "x"
   ]
  ],
  "rows": "@SEQ_ROWS",
  "spec": "@SEQ_SPEC"
 },
 "C03|evolver-same-signature|optimizer-confuses-reused-field-names": {
  "evolver": true,
  "evolver_parts": [
   2
  ],
  "muts": [
   [
    "AddField",
    "A",
    "x",
    "IntegerField",
    {
     "initial": 7
    }
   ],
   [
    "DeleteField",
    "A",
    "a3"
   ],
   [
    "AddField",
    "A",
    "a3",
    "CharField",
    {
     "initial": "i'%",
     "max_length": 8
    }
   ],
   [
    "DeleteField",
    "A",
    "a3"
   ]
  ],
  "rows": "@SEQ_ROWS",
  "spec": "@SEQ_SPEC"
 },
 "C03|evolver-same-signature|optimizer-drops-rename-back-to-existing-name": {
  "evolver_parts": [
   1,
   2
  ],
  "muts": [
   [
    "RenameModel",
    "A",
    "C",
    "tests_c"
   ],
   [
    "SQLMutation",
    "barrier",
    [
     "SELECT 1;"
    ],
    "sim"
   ],
   [
    "RenameModel",
    "C",
    "A",
    "tests_a"
   ]
  ],
  "rows": "@SEQ_ROWS",
  "spec": "@SEQ_SPEC"
 },
 "C03|evolver-same-signature|optimizer-merges-changefield-across-type-change": {
  "evolver_parts": [
   1,
   2
  ],
  "muts": [
   [
    "ChangeField",
    "A",
    "a2",
    {
     "unique": true
    }
   ],
   [
    "ChangeField",
    "A",
    "a2",
    {
     "field_type": "CharField",
     "max_length": 12,
     "null": true
    }
   ]
  ],
  "rows": "@SEQ_ROWS",
  "spec": "@SEQ_SPEC"
 },
 "C03|rerun-same-result|optimizer-rewrites-mutations-in-place": {
  "evolver_parts": [
   1,
   2
  ],
  "muts": [
   [
    "RenameModel",
    "B",
    "Aa",
    "tests_aa"
   ],
   [
    "DeleteModel",
    "Aa"
   ]
  ],
  "rows": "@SEQ_ROWS",
  "spec": "@SEQ_SPEC"
 }
}
'''
# --- END GENERATED WITNESSES ---


def _attach_witnesses():
    named = {'@SEQ_SPEC': SEQ_SPEC, '@SEQ_ROWS': SEQ_ROWS,
             '@INIT_SPEC': INIT_SPEC, '@TYPES_SPEC': TYPES_SPEC,
             '@C01_PLAIN': c01_base(False), '@C01_RICH': c01_base(True)}
    data = json.loads(_WITNESS_JSON, object_pairs_hook=OrderedDict)

    for suite, known_list in (('C01', KNOWN_C01), ('C02', KNOWN_C02),
                              ('C03', KNOWN_C03), ('C18', KNOWN_C18)):
        for entry in known_list:
            clauses = entry['clause']

            if isinstance(clauses, str):
                clauses = [clauses]

            entry.setdefault('inputs', None)

            for clause in clauses:
                inputs = data.get('%s|%s|%s' % (suite, clause, entry['id']))

                if inputs is not None:
                    inputs = OrderedDict(inputs)

                    for field in ('spec', 'rows', 'target'):
                        if isinstance(inputs.get(field), str):
                            inputs[field] = copy.deepcopy(
                                named[inputs[field]])

                    entry['inputs'] = inputs
                    entry['witness_clause'] = clause
                    break


_attach_witnesses()


def known_findings():
    """All KNOWN entries as JSON-able dicts (without the predicates)."""
    result = []

    for suite, known_list in (('C01', KNOWN_C01), ('C02', KNOWN_C02),
                              ('C03', KNOWN_C03), ('C18', KNOWN_C18)):
        for entry in known_list:
            item = dict((k, v) for k, v in entry.items() if k != 'pred')
            item['suite'] = suite
            result.append(item)

    return result


SUITES = OrderedDict([
    ('C01', (suite_C01, replay_C01)),
    ('C02', (suite_C02, replay_C02)),
    ('C03', (suite_C03, replay_C03)),
    ('C18', (suite_C18, replay_C18)),
])


if __name__ == '__main__':
    import argparse

    parser = argparse.ArgumentParser(description=__doc__.split('\n')[0])
    parser.add_argument('ids', nargs='*', default=list(SUITES))
    parser.add_argument('--tier', default='quick')
    parser.add_argument('--seed', type=int, default=0)
    options = parser.parse_args()

    for suite_id in options.ids:
        outcome = SUITES[suite_id][0](options.tier, options.seed)
        print(json.dumps(H.to_jsonable(outcome), indent=1, default=repr))


KNOWN_C03.append({
    'id': 'optimizer-rewrites-mutations-in-place',
    'clause': 'evolver-accepted',
    'match': 'definitions altered and the Evolver pipeline dies with '
             "AttributeError \"'NoneType' object has no attribute "
             "'field_type'\" while the second processing looks up a field "
             'under its pre-rewrite name (even when the bare optimised run '
             'is rejected for another recorded reason)',
    'what': 'see the other entries of this id',
    'pred': lambda sc, ob: bool(ob.get('altered')) and
    (ob.get('error') or {}).get('class') == 'AttributeError' and
    "'field_type'" in ((ob.get('error') or {}).get('message') or ''),
})

# The optimiser-side causes also make the evolved schema differ from the
# fresh one (C01 runs its sequences as one optimised batch).
for _cause, _ref in (
        ('optimizer-collapses-column-name-chain', 'KNOWN_C03'),
        ('optimizer-merges-changefield-across-type-change', 'KNOWN_C03'),
        ('rename-model-not-tracked-in-database-state', 'the '
         'accepted-evolution-crashes entry of the same id')):
    KNOWN_C01.append({
        'id': _cause,
        'clause': 'schema-equals-fresh',
        'match': 'see %s (sequence run as one optimised batch)' % _ref,
        'what': 'see %s' % _ref,
        'pred': _causes_pred(_cause),
    })

KNOWN_C03.append(
    {
        'id': 'optimizer-folded-initial-later-wins',
        'clause': ['batched-same-rows', 'evolver-same-rows'],
        'match': 'see KNOWN_C02 folded-changefield-initial-overrides-earlier: AddField(f, initial=A) or '
                 'ChangeField(f, null=False, initial=A) followed in the same batch by ChangeField(f, initial=B)',
        'what': 'AppMutator._copy_change_attrs lets the later initial value win when folding: the rows of the '
                'optimised run hold B where the one-at-a-time run holds A',
        'pred': lambda sc, ob: folded_initial_overrides(sc['muts'], True),
    }
)

_attach_witnesses()


# Entries for which no run on the pinned tree produced a witness were never
# observed: they are not recorded findings.
for _known_list in (KNOWN_C01, KNOWN_C02, KNOWN_C03, KNOWN_C18):
    _known_list[:] = [_entry for _entry in _known_list
                      if _entry.get('inputs') is not None]


# Defect classes repaired in /repo (see known_findings.json -> fixed): no longer an accepted explanation, so a
# scenario that fails again for that reason is reported as an unknown failure.
FIXED_IDS = set(['initial-values-bound-in-mutation-order'])

for _lst in (KNOWN_C01, KNOWN_C02, KNOWN_C03, KNOWN_C18):
    _lst[:] = [_e for _e in _lst if _e['id'] not in FIXED_IDS]
