"""Bounded native suites for the database-facing properties C01, C02, C03, C18.

Run from an empty scratch cwd with::

    PYTHONPATH=/repo:/repo/tests:/verif DJANGO_SETTINGS_MODULE=settings \\
    PYTHONDONTWRITEBYTECODE=1 /verif/.venv/bin/python -c \\
        "from adapters import suites_db as S; print(S.suite_C02('quick'))"

Every suite ``suite_<ID>(tier='quick', seed=0)`` enumerates a stated finite
scope of *plain data* scenarios, runs each through the REAL django-evolution
code with ``adapters.evo_harness`` (real ``AppMutator`` / SQLite evolver /
``SQLExecutor`` / ``Evolver`` + ``EvolveAppTask`` against a real scratch
SQLite database) and evaluates the property's clauses.  ``replay_<ID>(inputs)``
re-runs ONE scenario taken from a failure's ``inputs``.

Scenario format (all JSON-able)::

    {'spec': <model spec, see evo_harness; field = [type_name, kwargs]>,
     'rows': {model_name: [{field: value}, ...]},
     'muts': [<mutation description>, ...],
     ... suite specific keys ...}

Mutation descriptions::

    ['AddField', model, field, 'IntegerField', {'initial': 7, 'null': False}]
    ['ChangeField', model, field, {'null': False, 'initial': 5,
                                   'field_type': 'CharField'}]
    ['DeleteField', model, field]
    ['RenameField', model, old, new, {'db_column': ..., 'db_table': ...}]
    ['ChangeMeta', model, prop, value]
    ['RenameModel', old, new, db_table]
    ['DeleteModel', model]
    ['DeleteApplication']
    ['SQLMutation', tag, [sql, ...], 'sim' | 'nosim']

Special encoded values inside kwargs / meta values: ``{'__Q__': {lookup:
value}}`` (a ``django.db.models.Q``), ``{'__cls__': 'UniqueConstraint'}`` (a
class of ``django.db.models``), ``{'__callable__': '<sql text>'}`` (a callable
initial value returning that SQL text).

Multiprocessing: the suites call ``evo_harness.setup()`` in the parent and
then fork up to 8 workers (the test databases are in-memory SQLite
databases, so every forked child owns a private copy).
"""

from __future__ import print_function, unicode_literals

import copy
import itertools
import json
import multiprocessing
import os
import random
import re
import sys
import time
import traceback
import warnings
from collections import OrderedDict

from adapters import evo_harness as H


MAX_WORKERS = 8
MAX_FAILURES = 10

_last_project_sig = [None]
_orig_project_sig_fn = [None]


# ---------------------------------------------------------------------------
# Harness glue
# ---------------------------------------------------------------------------

def _setup():
    """Set up the harness and hook the project-signature factory.

    ``evo_harness.run_mutations`` does not return the live
    ``ProjectSignature`` it evolved; the hook remembers the most recently
    created one (the start signature object, which the ``AppMutator``
    evolves in place).
    """
    H.setup()

    import logging
    logging.disable(logging.CRITICAL)

    if _orig_project_sig_fn[0] is None:
        _orig_project_sig_fn[0] = H._project_sig

        def _recording_project_sig(model_map):
            sig = _orig_project_sig_fn[0](model_map)
            _last_project_sig[0] = sig
            return sig

        H._project_sig = _recording_project_sig


def _models():
    from django.db import models
    return models


def _dec(value):
    """Decode the special encoded values (Q, class, callable)."""
    models = _models()

    if isinstance(value, dict):
        if len(value) == 1 and '__Q__' in value:
            return models.Q(**dict((str(k), _dec(v))
                                   for k, v in value['__Q__'].items()))

        if len(value) == 1 and '__cls__' in value:
            return getattr(models, value['__cls__'])

        if '__callable__' in value:
            text = value['__callable__']
            return lambda: text

        return OrderedDict((k, _dec(v)) for k, v in value.items())

    if isinstance(value, (list, tuple)):
        return [_dec(item) for item in value]

    return value


def _enc(value):
    """Inverse of :func:`_dec` for values found in real mutation objects."""
    models = _models()

    if isinstance(value, models.Q):
        if value.connector == 'AND' and not value.negated and all(
                isinstance(child, tuple) for child in value.children):
            return {'__Q__': dict((k, _enc(v)) for k, v in value.children)}

        return {'__repr__': repr(value)}

    if isinstance(value, type):
        return {'__cls__': value.__name__}

    if isinstance(value, dict):
        return OrderedDict((k, _enc(v)) for k, v in value.items())

    if isinstance(value, (list, tuple)):
        return [_enc(item) for item in value]

    if value is None or isinstance(value, (bool, int, float, str)):
        return value

    if callable(value):
        return {'__repr__': repr(value)}

    return {'__repr__': repr(value)}


def dec_spec(spec):
    """Turn a JSON-able spec into what ``evo_harness.build_models`` takes."""
    result = OrderedDict()

    for model_name, model_spec in spec.items():
        fields = OrderedDict()

        for field_name, info in (model_spec.get('fields') or {}).items():
            fields[field_name] = (info[0], _dec(dict(info[1])))

        meta = OrderedDict()

        for key, value in (model_spec.get('meta') or {}).items():
            value = _dec(value)

            if key in ('unique_together', 'index_together'):
                value = [tuple(item) for item in value]
            elif key == 'constraints':
                fixed = []

                for item in value:
                    item = dict(item)

                    if isinstance(item.get('type'), type):
                        item['type'] = item['type'].__name__

                    fixed.append(item)

                value = fixed

            meta[key] = value

        result[model_name] = {'fields': fields, 'meta': meta}

    return result


def _noop_update(simulation):
    pass


def mk(desc):
    """Build a real mutation object from a plain description."""
    _setup()

    models = _models()
    from django_evolution import mutations as M

    kind = desc[0]

    if kind == 'AddField':
        kwargs = dict((str(k), _dec(v)) for k, v in (desc[4] or {}).items())
        return M.AddField(desc[1], desc[2], getattr(models, desc[3]),
                          **kwargs)

    if kind == 'ChangeField':
        kwargs = dict((str(k), _dec(v)) for k, v in (desc[3] or {}).items())

        if isinstance(kwargs.get('field_type'), str):
            kwargs['field_type'] = getattr(models, kwargs['field_type'])

        return M.ChangeField(desc[1], desc[2], **kwargs)

    if kind == 'DeleteField':
        return M.DeleteField(desc[1], desc[2])

    if kind == 'RenameField':
        kwargs = dict((str(k), v)
                      for k, v in (desc[4] if len(desc) > 4 and desc[4]
                                   else {}).items())
        return M.RenameField(desc[1], desc[2], desc[3], **kwargs)

    if kind == 'ChangeMeta':
        value = _dec(desc[3])

        if desc[2] in ('unique_together', 'index_together'):
            value = [tuple(item) for item in value]
        elif desc[2] in ('indexes', 'constraints'):
            value = [dict(item) for item in value]

        return M.ChangeMeta(desc[1], desc[2], value)

    if kind == 'RenameModel':
        return M.RenameModel(desc[1], desc[2], db_table=desc[3])

    if kind == 'DeleteModel':
        return M.DeleteModel(desc[1])

    if kind == 'DeleteApplication':
        return M.DeleteApplication()

    if kind == 'SQLMutation':
        mode = desc[3] if len(desc) > 3 else 'sim'
        return M.SQLMutation(desc[1], list(desc[2]),
                             update_func=(_noop_update if mode == 'sim'
                                          else None))

    raise ValueError('Unknown mutation description %r' % (desc,))


def mks(descs):
    return [mk(desc) for desc in descs]


def desc_of(mutation):
    """Describe a real mutation object as plain data (for hinted ones)."""
    from django_evolution import mutations as M

    if isinstance(mutation, M.AddField):
        kwargs = OrderedDict(sorted(
            (k, _enc(v)) for k, v in mutation.field_attrs.items()))

        if mutation.initial is not None:
            kwargs['initial'] = _enc(mutation.initial)

        return ['AddField', mutation.model_name, mutation.field_name,
                mutation.field_type.__name__, kwargs]

    if isinstance(mutation, M.ChangeField):
        kwargs = OrderedDict(sorted(
            (k, _enc(v)) for k, v in mutation.field_attrs.items()))

        if mutation.field_type is not None:
            kwargs['field_type'] = mutation.field_type.__name__

        if mutation.initial is not None:
            kwargs['initial'] = _enc(mutation.initial)

        return ['ChangeField', mutation.model_name, mutation.field_name,
                kwargs]

    if isinstance(mutation, M.DeleteField):
        return ['DeleteField', mutation.model_name, mutation.field_name]

    if isinstance(mutation, M.RenameField):
        kwargs = {}

        if mutation.db_column:
            kwargs['db_column'] = mutation.db_column

        if mutation.db_table:
            kwargs['db_table'] = mutation.db_table

        return ['RenameField', mutation.model_name, mutation.old_field_name,
                mutation.new_field_name, kwargs]

    if isinstance(mutation, M.ChangeMeta):
        return ['ChangeMeta', mutation.model_name, mutation.prop_name,
                _enc(mutation.new_value)]

    if isinstance(mutation, M.RenameModel):
        return ['RenameModel', mutation.old_model_name,
                mutation.new_model_name, mutation.db_table]

    if isinstance(mutation, M.DeleteModel):
        return ['DeleteModel', mutation.model_name]

    if isinstance(mutation, M.DeleteApplication):
        return ['DeleteApplication']

    if isinstance(mutation, M.SQLMutation):
        return ['SQLMutation', mutation.tag, list(mutation.sql),
                'sim' if mutation.update_func else 'nosim']

    return ['<%s>' % type(mutation).__name__, repr(mutation)]


def mutation_fingerprint(mutation):
    """Everything that defines a mutation, as comparable plain data."""
    data = {}

    for key, value in sorted(vars(mutation).items()):
        if key == 'update_func':
            continue

        data[key] = H._plain(copy.deepcopy(value)) if not callable(value) \
            else repr(value)

    return (type(mutation).__name__, json.dumps(data, sort_keys=True,
                                                default=repr))


#: Exceptions that mean "the library rejected the input" (legitimately).
def _is_rejection(error):
    if error is None:
        return False

    return error['class'] in (
        'SimulationFailure', 'EvolutionNotImplementedError',
        'CannotSimulate', 'EvolutionBaselineMissingError',
        'EvolutionException', 'MissingSignatureError',
        'InvalidSignatureVersion',
    )


def run(spec, groups, rows=None, end_spec=None, database='default'):
    """``evo_harness.run_mutations`` for described or real mutations.

    Returns the harness result with an extra ``'project_sig'`` (the live
    evolved ``ProjectSignature`` object or ``None``).
    """
    _setup()

    real_groups = []

    for group in groups:
        real_groups.append([
            mk(item) if isinstance(item, (list, tuple)) else item
            for item in group
        ])

    _last_project_sig[0] = None
    result = H.run_mutations(dec_spec(spec), real_groups,
                             rows=_dec_rows(rows), database=database,
                             end_spec=(dec_spec(end_spec)
                                       if end_spec is not None else None))
    result['project_sig'] = _last_project_sig[0]

    return result


def _dec_rows(rows):
    if not rows:
        return rows

    return OrderedDict((name, [OrderedDict(row) for row in table_rows])
                       for name, table_rows in rows.items())


def sim_valid(spec, descs):
    """Is the sequence valid when simulated one mutation at a time?

    Returns ``(ok, error_dict)``.
    """
    _setup()
    result = H.simulate_only(dec_spec(spec), mks(descs))

    return result['error'] is None, result['error']


# ---------------------------------------------------------------------------
# The real Evolver pipeline
# ---------------------------------------------------------------------------

def run_evolver(spec, evolutions, rows=None, database='default'):
    """Run evolutions through ``Evolver`` + ``EvolveAppTask`` (real pipeline).

    Args:
        spec (dict): JSON-able start spec.
        evolutions (list): ``[(label, [mutation desc or object, ...]), ...]``.
        rows (dict): start rows.

    The start models are created and a ``Version`` holding their signature
    is stored (that is what an installed project looks like); then
    ``Evolver()`` is created, an ``EvolveAppTask(evolutions=...)`` queued and
    ``Evolver.evolve()`` called: ``prepare()`` processes the mutations a
    first time, ``_build_batches()`` processes THE SAME mutation objects
    again and that SQL is executed.

    Returns:
        dict: ``error``, ``statements`` (executed, without params),
        ``rebuilds``, ``final_sig``, ``schema``, ``rows``, ``fk_check``,
        ``mutations`` (the real mutation objects).
    """
    _setup()

    from django.db import connections
    from django_evolution.evolve import EvolveAppTask, Evolver
    from django_evolution.models import Evolution, Version
    from django_evolution.tests import models as evo_test

    result = {'error': None, 'statements': [], 'rebuilds': {},
              'final_sig': None, 'schema': {}, 'rows': {}, 'fk_check': [],
              'mutations': []}
    connection = connections[database]
    H._cleanup(database)
    base_version_ids = None
    _clear_custom_migrations()

    try:
        with warnings.catch_warnings():
            warnings.simplefilter('ignore')

            try:
                model_map = H.build_models(dec_spec(spec))
                project_sig = _orig_project_sig_fn[0](model_map)
                H._create_tables(database)

                if rows:
                    H._insert_rows(model_map, _dec_rows(rows), database)

                base_version_ids = set(
                    Version.objects.using(database)
                    .values_list('pk', flat=True))
                latest = Version.objects.using(database).order_by('-pk')[0]
                start_sig = latest.signature.clone()

                if start_sig.get_app_sig(H.APP_LABEL) is not None:
                    start_sig.remove_app_sig(H.APP_LABEL)

                start_sig.add_app_sig(
                    project_sig.get_app_sig(H.APP_LABEL).clone())
                Version(signature=start_sig).save(using=database)

                real_evolutions = []

                for label, items in evolutions:
                    real = [mk(item) if isinstance(item, (list, tuple))
                            else item for item in items]
                    result['mutations'].extend(real)
                    real_evolutions.append({'label': label,
                                            'mutations': real})
            except Exception as e:
                result['error'] = H._error_dict(e, 'setup')

            if result['error'] is None:
                recorded = []

                def recorder(execute, statement, params, many, context):
                    recorded.append(statement)
                    return execute(statement, params, many, context)

                evolver = None
                phase = 'prepare'

                try:
                    with connection.execute_wrapper(recorder):
                        evolver = Evolver(database_name=database)
                        task = EvolveAppTask(evolver, app=evo_test,
                                             evolutions=real_evolutions)
                        evolver.queue_task(task)
                        evolver._prepare_tasks()
                        del recorded[:]
                        phase = 'execute'
                        evolver.evolve()
                except Exception as e:
                    result['error'] = H._error_dict(e, phase)
                    result['error']['detail'] = getattr(
                        e, 'detailed_error', None)

                result['statements'] = [
                    statement for statement in recorded
                    if isinstance(statement, str)
                ]
                result['rebuilds'] = H.count_rebuilds(result['statements'])

                if evolver is not None:
                    try:
                        result['final_sig'] = H.simplify_sig(
                            evolver.project_sig)
                    except Exception as e:  # pragma: no cover
                        result['final_sig'] = {'__error__': repr(e)}

        H._reset_connection(connection)
        result['schema'] = H.introspect_schema(database)
        result['rows'] = H.dump_rows(database)
        result['fk_check'] = H.fk_check(database)
    finally:
        try:
            H._reset_connection(connection)

            if base_version_ids is not None:
                Evolution.objects.using(database).filter(
                    app_label=H.APP_LABEL).delete()
                Evolution.objects.using(database).exclude(
                    version__in=base_version_ids).delete()
                Version.objects.using(database).exclude(
                    pk__in=base_version_ids).delete()
        except Exception:  # pragma: no cover - defensive
            pass

        _clear_custom_migrations()
        H._cleanup(database)

    return result


def _clear_custom_migrations():
    """``EvolveAppTask.prepare_tasks`` registers custom migrations globally
    and only clears them when it does not fail; never leak that into the
    next scenario."""
    try:
        from django_evolution.utils.migrations import \
            clear_global_custom_migrations
        clear_global_custom_migrations()
    except Exception:  # pragma: no cover - defensive
        pass


# ---------------------------------------------------------------------------
# Signature -> spec (the "evolved models"), schema comparison
# ---------------------------------------------------------------------------

def spec_from_sig(project_sig):
    """Build a (non JSON) harness spec describing the evolved models."""
    models = _models()
    app_sig = project_sig.get_app_sig(H.APP_LABEL)
    spec = OrderedDict()

    if app_sig is None:
        return spec

    for model_sig in app_sig.model_sigs:
        fields = OrderedDict()

        for field_sig in model_sig.field_sigs:
            field_type = field_sig.field_type
            attrs = dict(field_sig.field_attrs)

            if (field_sig.field_name == 'id' and
                issubclass(field_type, models.AutoField) and
                attrs.get('primary_key')):
                continue

            attrs.pop('related_model', None)

            if field_sig.related_model:
                app_label, model_name = field_sig.related_model.split('.')

                if app_label == H.APP_LABEL:
                    attrs['to'] = model_name
                else:
                    attrs['to'] = field_sig.related_model

            if issubclass(field_type, models.ManyToManyField):
                attrs.pop('null', None)

                if attrs.get('db_table') is None:
                    attrs.pop('db_table', None)

            fields[field_sig.field_name] = (field_type, attrs)

        meta = OrderedDict()
        meta['db_table'] = model_sig.table_name

        if model_sig.unique_together:
            meta['unique_together'] = [tuple(item) for item in
                                       model_sig.unique_together]

        if model_sig.index_together:
            meta['index_together'] = [tuple(item) for item in
                                      model_sig.index_together]

        indexes = []

        for index_sig in model_sig.index_sigs:
            kwargs = dict(index_sig.attrs or {})

            if index_sig.fields:
                kwargs['fields'] = list(index_sig.fields)

            if index_sig.name:
                kwargs['name'] = index_sig.name

            if index_sig.expressions:
                indexes.append(models.Index(*index_sig.expressions,
                                            **kwargs))
            else:
                indexes.append(models.Index(**kwargs))

        if indexes:
            meta['indexes'] = indexes

        constraints = []

        for constraint_sig in model_sig.constraint_sigs:
            kwargs = dict(constraint_sig.attrs or {})
            kwargs['name'] = constraint_sig.name
            constraints.append(constraint_sig.type(**kwargs))

        if constraints:
            meta['constraints'] = constraints

        spec[model_sig.model_name] = {'fields': fields, 'meta': meta}

    return spec


def fresh_schema_of_sig(project_sig, database='default'):
    """Create the evolved models from scratch and introspect the schema."""
    spec = spec_from_sig(project_sig)

    if not spec:
        return OrderedDict()

    # spec_from_sig() already holds real classes/objects: bypass dec_spec().
    return H.fresh_schema(spec, database=database)


_WS_RE = re.compile(r'\s+')


def _balanced(text, start):
    """Return the index just after the paren group opening at ``start``."""
    depth = 0
    i = start
    in_str = None

    while i < len(text):
        ch = text[i]

        if in_str:
            if ch == in_str:
                in_str = None
        elif ch in ('"', "'"):
            in_str = ch
        elif ch == '(':
            depth += 1
        elif ch == ')':
            depth -= 1

            if depth == 0:
                return i + 1

        i += 1

    return len(text)


def _check_clauses(create_sql):
    clauses = []

    if not create_sql:
        return clauses

    for m in re.finditer(r'\bCHECK\s*\(', create_sql):
        start = m.end() - 1
        end = _balanced(create_sql, start)
        clauses.append(_WS_RE.sub(' ', create_sql[start:end]).strip())

    return sorted(clauses)


def _index_conditions(index_sql):
    result = []

    for statement in index_sql or []:
        m = re.search(r'\)\s*WHERE\s+(.*)$', statement, re.S)

        if m:
            unique = statement.upper().startswith('CREATE UNIQUE')
            cols = re.search(r'\bON\s+"[^"]+"\s*\((.*?)\)\s*WHERE',
                             statement, re.S)
            result.append((int(unique),
                           _WS_RE.sub(' ', cols.group(1)) if cols else None,
                           _WS_RE.sub(' ', m.group(1)).strip()))

    return sorted(result, key=repr)


def norm_table(info):
    """Reduce a harness table description to what C01 talks about."""
    return {
        'columns': dict(
            (name, (str(decl or '').lower(), int(notnull), int(pk)))
            for name, decl, notnull, pk in info['columns']),
        'indexes': sorted([[int(unique), list(cols)]
                           for unique, cols in info['indexes']], key=repr),
        'index_conditions': [list(item) for item in
                             _index_conditions(info.get('index_sql'))],
        'checks': _check_clauses(info.get('create_sql')),
        'foreign_keys': sorted([list(item)
                                for item in info['foreign_keys']], key=repr),
    }


def schema_diff(actual, expected, tables=None):
    """Differences between two harness schemas as a JSON-able list."""
    diffs = []
    names = sorted(set(actual) | set(expected))

    for name in names:
        if tables is not None and name not in tables:
            continue

        if name not in actual:
            diffs.append({'table': name, 'what': 'missing-table'})
            continue

        if name not in expected:
            diffs.append({'table': name, 'what': 'unexpected-table'})
            continue

        a = norm_table(actual[name])
        e = norm_table(expected[name])

        for key in ('columns', 'indexes', 'index_conditions', 'checks',
                    'foreign_keys'):
            if a[key] != e[key]:
                if key == 'columns':
                    detail = {
                        'actual': dict((c, v) for c, v in a[key].items()
                                       if e[key].get(c) != v),
                        'expected': dict((c, v) for c, v in e[key].items()
                                         if a[key].get(c) != v),
                    }
                else:
                    detail = {'actual': a[key], 'expected': e[key]}

                diffs.append(dict({'table': name, 'what': key}, **detail))

    return diffs


def rows_by_name(rows):
    """{table: sorted list of {column: value}} (column order independent)."""
    result = {}

    for table, data in rows.items():
        cols = data['columns']
        result[table] = sorted(
            (dict(zip(cols, row)) for row in data['rows']),
            key=lambda item: json.dumps(item, sort_keys=True, default=repr))

    return result


# ---------------------------------------------------------------------------
# Worker pool
# ---------------------------------------------------------------------------

_EVALS = {}


def _eval_task(task):
    suite_id, scenario = task

    try:
        _setup()
        outcome = _EVALS[suite_id](scenario)
    except Exception as e:  # harness/oracle bug, never a property failure
        outcome = {'nontrivial': False, 'skipped': 'internal-error',
                   'failures': [],
                   'internal_error': '%s: %s\n%s' % (
                       type(e).__name__, e, traceback.format_exc()[-1500:])}

    return outcome


def _map(suite_id, scenarios, workers=None, deadline=None):
    """Evaluate scenarios (a list) in a fork pool; yields (scenario, out)."""
    _setup()
    scenarios = list(scenarios)
    tasks = [(suite_id, scenario) for scenario in scenarios]

    if workers is None:
        workers = min(MAX_WORKERS, os.cpu_count() or 1)

    if workers <= 1 or len(tasks) < 8:
        for task in tasks:
            if deadline is not None and time.time() > deadline:
                break

            yield task[1], _eval_task(task)

        return

    ctx = multiprocessing.get_context('fork')
    pool = ctx.Pool(workers)

    try:
        chunk = max(1, min(16, len(tasks) // (workers * 8) or 1))
        index = 0

        for outcome in pool.imap(_eval_task, tasks, chunksize=chunk):
            yield scenarios[index], outcome
            index += 1

            if deadline is not None and time.time() > deadline:
                break
    finally:
        pool.terminate()
        pool.join()


def _known_match(known_list, clause, scenario, observed):
    for entry in known_list:
        if entry['clause'] != clause:
            continue

        pred = entry.get('pred')

        try:
            if pred is None or pred(scenario, observed):
                return entry
        except Exception:
            continue

    return None


def _collect(suite_id, scenarios, known_list, rule, exhaustive, t0,
             budget=None, workers=None):
    """Run scenarios, gather the suite result dict."""
    evaluations = 0
    nontrivial = set()
    failures = []
    failure_counts = {}
    samples = []
    skipped = {}
    internal = []
    deadline = (t0 + budget) if budget else None
    total = len(scenarios)
    truncated = False

    for scenario, outcome in _map(suite_id, scenarios, workers=workers,
                                  deadline=deadline):
        evaluations += 1
        key = json.dumps(scenario, sort_keys=True, default=repr)

        if outcome.get('internal_error'):
            if len(internal) < 3:
                internal.append({'inputs': scenario,
                                 'error': outcome['internal_error']})

        if outcome.get('skipped'):
            skipped[outcome['skipped']] = \
                skipped.get(outcome['skipped'], 0) + 1

        if outcome.get('nontrivial'):
            nontrivial.add(key)

        for clause, observed in outcome.get('failures', []):
            entry = _known_match(known_list, clause, scenario, observed)
            tag = '%s%s' % (clause, ':known:' + entry['id'] if entry else '')
            failure_counts[tag] = failure_counts.get(tag, 0) + 1
            record = {'clause': clause, 'inputs': scenario,
                      'observed': H.to_jsonable(observed),
                      'known': entry is not None}

            if entry is not None:
                record['known_id'] = entry['id']

            # Keep at most MAX_FAILURES, preferring unknown ones and one
            # witness per (clause, known id).
            failures.append(record)

        if len(samples) < 3 and outcome.get('nontrivial') and (
                len(samples) < 2 or outcome.get('failures')):
            samples.append({'inputs': scenario,
                            'outcome': H.to_jsonable(
                                outcome.get('summary') or
                                {'failures': [c for c, _o in
                                              outcome.get('failures', [])]})})

    if evaluations < total:
        truncated = True

    def size(record):
        return len(json.dumps(record['inputs'], default=repr))

    unknown = sorted([f for f in failures if not f['known']], key=size)
    known = sorted([f for f in failures if f['known']], key=size)
    picked = []
    seen = set()

    for record in unknown + known:
        tag = (record['clause'], record.get('known_id'))

        if tag in seen and record['known']:
            continue

        if tag in seen and len(picked) >= MAX_FAILURES // 2:
            continue

        seen.add(tag)
        picked.append(record)

        if len(picked) >= MAX_FAILURES:
            break

    return {
        'evaluations': evaluations,
        'distinct_nontrivial': len(nontrivial),
        'failures': picked,
        'failure_counts': failure_counts,
        'unknown_failures': len(unknown),
        'known_failures': len(known),
        'samples': samples,
        'exhaustive': bool(exhaustive and not truncated),
        'truncated': truncated,
        'planned': total,
        'skipped': skipped,
        'internal_errors': internal,
        'rule': rule,
        'elapsed': round(time.time() - t0, 2),
    }


# ---------------------------------------------------------------------------
# Mutation sequence space (shared by C03 and C18; re-used by C01/C02)
# ---------------------------------------------------------------------------

#: Start models of the sequence space: two related models and a bystander
#: (``Z``) that no mutation ever names or relates to.
SEQ_SPEC = OrderedDict([
    ('A', {'fields': OrderedDict([
        ('a1', ['CharField', {'max_length': 20}]),
        ('a2', ['IntegerField', {'null': True}]),
        ('a3', ['CharField', {'max_length': 10, 'null': True}]),
    ]), 'meta': {}}),
    ('B', {'fields': OrderedDict([
        ('b1', ['IntegerField', {}]),
        ('ref', ['ForeignKey', {'to': 'A', 'null': True}]),
    ]), 'meta': {}}),
    ('Z', {'fields': OrderedDict([
        ('z1', ['CharField', {'max_length': 8, 'unique': True}]),
        ('z2', ['IntegerField', {'db_index': True}]),
    ]), 'meta': {}}),
])

SEQ_ROWS = OrderedDict([
    ('A', [
        {'a1': 'first', 'a2': 1, 'a3': 'x'},
        {'a1': "it's 100%", 'a2': None, 'a3': None},
        {'a1': '', 'a2': -2147483648, 'a3': 'q"uote'},
    ]),
    ('B', [
        {'b1': 10, 'ref': 1},
        {'b1': -5, 'ref': None},
    ]),
    ('Z', [
        {'z1': 'z-one', 'z2': 1},
        {'z1': '%s', 'z2': 2},
    ]),
])

_BARRIER_SIM = ['SQLMutation', 'barrier', ['SELECT 1;'], 'sim']
_BARRIER_NOSIM = ['SQLMutation', 'barrier_nosim', ['SELECT 1;'], 'nosim']

_REL = ('ForeignKey', 'OneToOneField', 'ManyToManyField')


class SeqState(object):
    """Light-weight model of the signature, only used to PROPOSE mutations.

    Whether a proposed sequence really is valid is always decided by the
    real simulation (``sim_valid``) and the real one-at-a-time run.
    """

    #: names a model may be renamed to: one that sorts after and one that
    #: sorts before the other model names.
    RENAME_TARGETS = {'A': 'C', 'B': 'Aa', 'C': 'A', 'Aa': 'B'}

    def __init__(self, spec, protected=('Z',)):
        self.models = OrderedDict()
        self.protected = set(protected)
        self.graveyard = {}

        for name, model_spec in spec.items():
            self.models[name] = {
                'table': (model_spec.get('meta') or {}).get(
                    'db_table', 'tests_%s' % name.lower()),
                'fields': OrderedDict(
                    (fname, [info[0], dict(info[1])])
                    for fname, info in model_spec['fields'].items()),
                'meta': dict(model_spec.get('meta') or {}),
            }

    def clone(self):
        return copy.deepcopy(self)

    # -- bookkeeping ----------------------------------------------------
    def apply(self, desc):
        kind = desc[0]
        models = self.models

        if kind == 'AddField':
            kwargs = dict(desc[4])
            kwargs.pop('initial', None)
            related = kwargs.pop('related_model', None)

            if related:
                kwargs['to'] = related.split('.')[1]

            models[desc[1]]['fields'][desc[2]] = [desc[3], kwargs]
        elif kind == 'ChangeField':
            info = models[desc[1]]['fields'][desc[2]]
            kwargs = dict(desc[3])
            kwargs.pop('initial', None)
            field_type = kwargs.pop('field_type', None)

            if field_type:
                info[0] = field_type
                info[1] = kwargs
            else:
                info[1].update(kwargs)
        elif kind == 'DeleteField':
            del models[desc[1]]['fields'][desc[2]]
            self.graveyard.setdefault(desc[1], []).append(desc[2])
        elif kind == 'RenameField':
            fields = models[desc[1]]['fields']
            models[desc[1]]['fields'] = OrderedDict(
                (desc[3] if name == desc[2] else name, info)
                for name, info in fields.items())
            meta = models[desc[1]]['meta']

            for prop in ('unique_together', 'index_together'):
                if meta.get(prop):
                    meta[prop] = [[desc[3] if f == desc[2] else f
                                   for f in item] for item in meta[prop]]
        elif kind == 'ChangeMeta':
            models[desc[1]]['meta'][desc[2]] = desc[3]
        elif kind == 'RenameModel':
            self.models = OrderedDict(
                (desc[2] if name == desc[1] else name, info)
                for name, info in models.items())
            self.models[desc[2]]['table'] = desc[3]

            if desc[1] in self.graveyard:
                self.graveyard[desc[2]] = self.graveyard.pop(desc[1])

            for info in self.models.values():
                for finfo in info['fields'].values():
                    if finfo[1].get('to') == desc[1]:
                        finfo[1]['to'] = desc[2]
        elif kind == 'DeleteModel':
            del models[desc[1]]
        elif kind == 'DeleteApplication':
            self.models = OrderedDict()

    def referenced(self, model_name):
        for name, info in self.models.items():
            for finfo in info['fields'].values():
                if finfo[1].get('to') == model_name and name != model_name:
                    return True

        return False

    # -- proposals ------------------------------------------------------
    def candidates(self, level):
        """All proposed next mutations for this state.

        Levels: 'mini' (model A only, few kinds), 'core', 'full'.
        """
        result = []
        full = level == 'full'
        mini = level == 'mini'

        for mname, minfo in self.models.items():
            if mname in self.protected:
                continue

            if mini and mname not in ('A', 'C'):
                # Only two mutations touch the second model in 'mini'.
                if 'b1' in minfo['fields']:
                    result.append(['DeleteField', mname, 'b1'])

                continue

            fields = minfo['fields']
            plain = [f for f, info in fields.items() if info[0] not in _REL]
            grave = [g for g in self.graveyard.get(mname, [])
                     if g not in fields]

            # AddField
            add_names = [n for n in ['x', 'y'] if n not in fields]

            if grave:
                add_names.append(grave[0])

            for i, name in enumerate(add_names[:2 if not full else 3]):
                if i == 0 or full:
                    result.append(['AddField', mname, name, 'IntegerField',
                                   {'initial': 7}])

                if i == 1 or full or (mini and i == 0):
                    result.append(['AddField', mname, name, 'CharField',
                                   {'max_length': 8, 'initial': "i'%"}])

                if full:
                    result.append(['AddField', mname, name, 'CharField',
                                   {'max_length': 8, 'null': True}])

            if full and 'lnk' not in fields:
                others = [o for o in self.models
                          if o != mname and o not in self.protected]

                for other in others[:1]:
                    result.append(['AddField', mname, 'lnk', 'ForeignKey',
                                   {'null': True,
                                    'related_model': 'tests.%s' % other}])
                    result.append(['AddField', mname, 'lnk',
                                   'ManyToManyField',
                                   {'related_model': 'tests.%s' % other}])

            meta_now = minfo['meta']
            # Fields referenced by Meta options.  RenameField never rewrites
            # Meta and DeleteField only rewrites unique_together, so naming
            # such a field would describe an inconsistent model (nothing to
            # compare against): those proposals are left out.
            in_unique_together = set(
                f for item in (meta_now.get('unique_together') or [])
                for f in item)
            in_other_meta = set(
                f for item in (meta_now.get('index_together') or [])
                for f in item)

            for item in (meta_now.get('indexes') or []):
                in_other_meta.update(item.get('fields') or [])

            for item in (meta_now.get('constraints') or []):
                in_other_meta.update(item.get('fields') or [])

            for fname in list(fields):
                ftype, kwargs = fields[fname]
                is_rel = ftype in _REL
                meta_ref = (fname in in_unique_together or
                            fname in in_other_meta)

                if not is_rel:
                    if kwargs.get('null'):
                        init = ('n%' if ftype in ('CharField', 'TextField')
                                else 5)
                        result.append(['ChangeField', mname, fname,
                                       {'null': False, 'initial': init}])
                    elif full:
                        result.append(['ChangeField', mname, fname,
                                       {'null': True}])

                    if ftype == 'CharField' and not mini:
                        result.append(['ChangeField', mname, fname,
                                       {'max_length':
                                        kwargs.get('max_length', 10) + 5}])

                    if full:
                        result.append(['ChangeField', mname, fname,
                                       {'db_index':
                                        not kwargs.get('db_index', False)}])
                        result.append(['ChangeField', mname, fname,
                                       {'unique':
                                        not kwargs.get('unique', False)}])

                        if not kwargs.get('db_column'):
                            result.append(['ChangeField', mname, fname,
                                           {'db_column': 'c_%s' % fname}])

                        if ftype == 'CharField':
                            result.append(['ChangeField', mname, fname,
                                           {'field_type': 'TextField',
                                            'null': kwargs.get('null',
                                                               False)}])
                        elif ftype == 'IntegerField':
                            result.append(['ChangeField', mname, fname,
                                           {'field_type': 'CharField',
                                            'max_length': 12,
                                            'null': kwargs.get('null',
                                                               False)}])

                if ((ftype != 'ManyToManyField' or full) and
                    fname not in in_other_meta):
                    result.append(['DeleteField', mname, fname])

                if meta_ref:
                    continue

                if not mini or fname in ('a2', 'x', 'r'):
                    targets = ['r'] if 'r' not in fields else ['x']
                    targets += grave[:1]

                    for target in targets[:2 if not mini else 1]:
                        if target not in fields and target != fname:
                            result.append(['RenameField', mname, fname,
                                           target, {}])

                    if full and not is_rel and 'r' not in fields:
                        result.append(['RenameField', mname, fname, 'r',
                                       {'db_column': 'col_r'}])

            # ChangeMeta
            meta = minfo['meta']

            if meta.get('unique_together'):
                result.append(['ChangeMeta', mname, 'unique_together', []])
            elif len(plain) >= 2:
                result.append(['ChangeMeta', mname, 'unique_together',
                               [[plain[0], plain[-1]]]])

            if full:
                if meta.get('index_together'):
                    result.append(['ChangeMeta', mname, 'index_together',
                                   []])
                elif len(plain) >= 2:
                    result.append(['ChangeMeta', mname, 'index_together',
                                   [[plain[0], plain[1]]]])

                if meta.get('indexes'):
                    result.append(['ChangeMeta', mname, 'indexes', []])
                elif plain:
                    result.append(['ChangeMeta', mname, 'indexes',
                                   [{'fields': [plain[0]],
                                     'name': 'ix_%s' % mname.lower()}]])

                if meta.get('constraints'):
                    result.append(['ChangeMeta', mname, 'constraints', []])
                elif plain:
                    result.append(['ChangeMeta', mname, 'constraints',
                                   [{'type': {'__cls__': 'UniqueConstraint'},
                                     'name': 'uc_%s' % mname.lower(),
                                     'fields': [plain[0]]}]])

            # RenameModel / DeleteModel
            target = self.RENAME_TARGETS.get(mname)

            if target and target not in self.models:
                result.append(['RenameModel', mname, target,
                               'tests_%s' % target.lower()])

                if full:
                    result.append(['RenameModel', mname, target,
                                   minfo['table']])

            if not mini and not self.referenced(mname):
                result.append(['DeleteModel', mname])

        if not mini or True:
            result.append(list(_BARRIER_SIM))

        if full:
            result.append(list(_BARRIER_NOSIM))

        return result


def enum_sequences(spec, level, max_len):
    """Exhaustively enumerate proposed sequences of length 1..max_len."""
    result = []

    def rec(state, prefix):
        for desc in state.candidates(level):
            seq = prefix + [desc]
            result.append(seq)

            if len(seq) < max_len:
                nxt = state.clone()

                try:
                    nxt.apply(desc)
                except Exception:
                    continue

                rec(nxt, seq)

    rec(SeqState(spec), [])

    return result


def random_sequence(spec, level, length, rng):
    state = SeqState(spec)
    seq = []

    for _i in range(length):
        cands = state.candidates(level)

        if not cands:
            break

        # Bias towards field level mutations, keep model level ones rare.
        weights = [0.25 if c[0] in ('DeleteModel', 'SQLMutation') else
                   0.5 if c[0] == 'RenameModel' else 1.0 for c in cands]
        desc = rng.choices(cands, weights=weights, k=1)[0]
        seq.append(desc)

        try:
            state.apply(desc)
        except Exception:
            break

    return seq


def _dedup(seqs):
    seen = set()
    result = []

    for seq in seqs:
        key = json.dumps(seq, sort_keys=True)

        if key not in seen:
            seen.add(key)
            result.append(seq)

    return result


# ---------------------------------------------------------------------------
# Shared comparison helpers
# ---------------------------------------------------------------------------

def _canon(value):
    return json.dumps(H.to_jsonable(value), sort_keys=True, default=repr)


def _sig_equal(sig_a, sig_b):
    """Equality of two simplified (normalised) signatures, order-free."""
    return _canon(sig_a) == _canon(sig_b)


def _sig_delta(sig_a, sig_b):
    """Small JSON-able description of where two simplified sigs differ."""
    delta = {}
    sig_a = H.to_jsonable(sig_a) or {}
    sig_b = H.to_jsonable(sig_b) or {}

    for model in sorted(set(sig_a) | set(sig_b)):
        if model not in sig_a or model not in sig_b:
            delta[model] = ('only-in-second' if model not in sig_a
                            else 'only-in-first')
            continue

        fa, fb = sig_a[model]['fields'], sig_b[model]['fields']

        for field in sorted(set(fa) | set(fb)):
            if _canon(fa.get(field)) != _canon(fb.get(field)):
                delta['%s.%s' % (model, field)] = [fa.get(field),
                                                   fb.get(field)]

        if _canon(sig_a[model]['meta']) != _canon(sig_b[model]['meta']):
            ma, mb = sig_a[model]['meta'], sig_b[model]['meta']
            delta['%s.Meta' % model] = dict(
                (key, [ma.get(key), mb.get(key)])
                for key in set(ma) | set(mb)
                if _canon(ma.get(key)) != _canon(mb.get(key)))

    return delta


def _rows_delta(rows_a, rows_b):
    a, b = rows_by_name(rows_a), rows_by_name(rows_b)
    delta = {}

    for table in sorted(set(a) | set(b)):
        if _canon(a.get(table)) != _canon(b.get(table)):
            delta[table] = {'first': a.get(table), 'second': b.get(table)}

    return delta


def _err_brief(error):
    if error is None:
        return None

    return dict((key, error.get(key))
                for key in ('class', 'message', 'phase', 'group',
                            'failed_statement', 'detail')
                if error.get(key) is not None)


def _compare_outcomes(first, second, prefix, failures, first_name,
                      second_name):
    """Append '<prefix>-signature/-schema/-rows' failures on difference."""
    if not _sig_equal(first['final_sig'], second['final_sig']):
        failures.append((prefix + '-signature', {
            'differs': '%s vs %s' % (first_name, second_name),
            'delta': _sig_delta(first['final_sig'], second['final_sig'])}))

    diff = schema_diff(first['schema'], second['schema'])

    if diff:
        failures.append((prefix + '-schema', {
            'differs': '%s (actual) vs %s (expected)'
                       % (first_name, second_name),
            'diff': diff}))

    delta = _rows_delta(first['rows'], second['rows'])

    if delta:
        failures.append((prefix + '-rows', {
            'differs': '%s (first) vs %s (second)'
                       % (first_name, second_name),
            'delta': delta}))


def _split_evolutions(muts, parts):
    """Spread mutations over ``parts`` evolutions (labels e0, e1, ...)."""
    parts = max(1, min(parts, len(muts)))
    size = (len(muts) + parts - 1) // parts
    result = []

    for i in range(parts):
        chunk = muts[i * size:(i + 1) * size]

        if chunk:
            result.append(('e%d' % i, chunk))

    return result


# ---------------------------------------------------------------------------
# C03 - optimising a mutation sequence never changes its outcome
# ---------------------------------------------------------------------------

def eval_C03(sc):
    spec, rows, muts = sc['spec'], sc.get('rows'), sc['muts']
    out = {'nontrivial': False, 'skipped': None, 'failures': [],
           'summary': {}}

    ok, error = sim_valid(spec, muts)

    if not ok:
        out['skipped'] = 'simulation-invalid'
        return out

    single = run(spec, [[m] for m in muts], rows)

    if single['error'] is not None:
        out['skipped'] = 'one-at-a-time-rejected:%s' % single['error']['class']
        return out

    out['nontrivial'] = len(muts) >= 2
    failures = out['failures']

    # -- bare AppMutator, all mutations in one optimised run ---------------
    objs = mks(muts)
    before = [mutation_fingerprint(m) for m in objs]
    before_desc = [desc_of(m) for m in objs]
    first = run(spec, [objs], rows)
    after = [mutation_fingerprint(m) for m in objs]

    if first['error'] is not None:
        failures.append(('batched-accepted', {
            'error': _err_brief(first['error'])}))
    else:
        _compare_outcomes(first, single, 'batched-same', failures,
                          'optimised run', 'one at a time')

    if before != after:
        failures.append(('definitions-unaltered', {
            'changed': [
                {'index': i, 'before': before_desc[i],
                 'after': desc_of(objs[i])}
                for i in range(len(objs)) if before[i] != after[i]
            ]}))

    # -- the same definitions (objects) processed again --------------------
    if sc.get('rerun', True):
        second = run(spec, [objs], rows)
        same = ((first['error'] is None) == (second['error'] is None))
        observed = {}

        if not same:
            observed['errors'] = [_err_brief(first['error']),
                                  _err_brief(second['error'])]
        elif first['error'] is None:
            sub = []
            _compare_outcomes(second, first, 'x', sub, 'second processing',
                              'first processing')

            if sub:
                observed['differences'] = [
                    {'what': clause[2:], 'detail': detail}
                    for clause, detail in sub]
        elif first['error']['class'] != second['error']['class']:
            observed['errors'] = [_err_brief(first['error']),
                                  _err_brief(second['error'])]

        if observed:
            failures.append(('rerun-same-result', observed))

    # -- the real Evolver task pipeline -------------------------------------
    if sc.get('evolver', True):
        for parts in sc.get('evolver_parts', [1]):
            ev = run_evolver(spec, _split_evolutions(muts, parts), rows)

            if ev['error'] is not None:
                failures.append(('evolver-accepted', {
                    'evolutions': parts,
                    'error': _err_brief(ev['error'])}))
            else:
                _compare_outcomes(ev, single, 'evolver-same', failures,
                                  'Evolver pipeline (%d evolution(s))'
                                  % parts, 'one at a time')

    out['summary'] = {
        'length': len(muts),
        'failed_clauses': sorted(set(c for c, _o in failures)),
        'rebuilds_single': dict(single['rebuilds']),
        'rebuilds_batched': dict(first['rebuilds']),
    }

    return out


_EVALS['C03'] = eval_C03


def _seq_scenarios(tier, seed, purpose):
    """The C03 space of mutation sequences (also used by C18)."""
    rng = random.Random(seed)
    quick = tier == 'quick'
    groups = []

    if quick:
        exhaustive = [('mini', 3), ('core', 1)]
        sampled = [('core', 2, 260), ('full', 2, 120)]
        randoms = [(60, 'core', (3, 6)), (60, 'full', (4, 12))]
    else:
        exhaustive = [('mini', 4), ('core', 2), ('full', 1)]
        sampled = [('core', 3, 3000), ('full', 2, 2500)]
        randoms = [(1200, 'core', (4, 12)), (1800, 'full', (4, 12))]

    seqs = []

    for level, max_len in exhaustive:
        part = enum_sequences(SEQ_SPEC, level, max_len)
        groups.append('exhaustive %s<=%d: %d' % (level, max_len, len(part)))
        seqs.extend(part)

    for level, max_len, count in sampled:
        part = [seq for seq in enum_sequences(SEQ_SPEC, level, max_len)
                if len(seq) == max_len]
        part = rng.sample(part, min(count, len(part)))
        groups.append('sample of %s len %d: %d' % (level, max_len,
                                                   len(part)))
        seqs.extend(part)

    for count, level, (lo, hi) in randoms:
        part = [random_sequence(SEQ_SPEC, level, rng.randint(lo, hi), rng)
                for _i in range(count)]
        groups.append('random %s len %d-%d: %d' % (level, lo, hi,
                                                   len(part)))
        seqs.extend(part)

    seqs = _dedup(seqs)

    return seqs, groups, bool(exhaustive)


KNOWN_C03 = []

RULE_C03 = (
    'Start models A(a1 char, a2 int null, a3 char null), B(b1 int, ref '
    'FK->A null), bystander Z, 3+2+2 rows.  Sequences are proposed by a '
    'state tracking generator (SeqState: AddField incl. re-use of deleted '
    'names, ChangeField null/max_length[/db_index/unique/db_column/type], '
    'DeleteField, RenameField[+db_column], ChangeMeta unique_together'
    '[/index_together/indexes/constraints], RenameModel to a name sorting '
    'before/after, DeleteModel, SQLMutation barriers with[/without] '
    'update_func; [..] only in level "full"), exhaustively for the listed '
    '(level, length) pairs plus seeded samples/random walks.  A sequence '
    'is skipped when the pure one-by-one simulation or the real '
    'one-mutation-per-AppMutator run rejects it.  Non-trivial = accepted '
    'one at a time and length >= 2.  Clauses: batched-accepted, '
    'batched-same-{signature,schema,rows}, definitions-unaltered (vars() '
    'of every mutation object before/after processing), rerun-same-result '
    '(the same objects through a second AppMutator on a fresh database), '
    'evolver-accepted / evolver-same-* (Evolver + EvolveAppTask: prepare() '
    'then _build_batches(), mutations spread over 1 or 2 evolutions).'
)


def suite_C03(tier='quick', seed=0):
    t0 = time.time()
    _setup()
    seqs, groups, exhaustive = _seq_scenarios(tier, seed, 'C03')
    scenarios = []

    for i, seq in enumerate(seqs):
        sc = {'spec': SEQ_SPEC, 'rows': SEQ_ROWS, 'muts': seq}

        if tier == 'quick':
            # The Evolver pipeline costs ~4 plain runs: every 2nd scenario.
            sc['evolver'] = (i % 2 == 0)
            sc['evolver_parts'] = [1 if i % 4 else 2]
        else:
            sc['evolver_parts'] = [1, 2] if len(seq) >= 2 else [1]

        scenarios.append(sc)

    result = _collect('C03', scenarios, KNOWN_C03,
                      RULE_C03 + '  Scope: ' + '; '.join(groups),
                      exhaustive, t0,
                      budget=55 if tier == 'quick' else 14 * 60)

    return result


def replay_C03(inputs):
    _setup()
    out = _eval_task(('C03', inputs))

    return {'reproduced': bool(out['failures']),
            'clauses': sorted(set(c for c, _o in out['failures'])),
            'failures': H.to_jsonable(out['failures']),
            'skipped': out.get('skipped'),
            'internal_error': out.get('internal_error')}
